package main

// grammar_peg.go: T2, a hand-written reader for pigeon's PEG meta-syntax
// (grammar/grammar.peg) plus a re-implementation of the parts of pigeon's
// builder that determine what ends up in the generated grammar table:
//
//   - the shape of the expression tree (pigeon's own grammar returns the inner
//     expression for a parenthesised group, a one-element sequence, a
//     one-alternative choice and an action without code),
//   - the function names on<Rule><n> (n = 1-based pre-order index of the node
//     within its rule, builder.writeExpr increments the counter once per node),
//   - the argument lists of the code blocks (builder.writeExprCode with its
//     stack of "args sets"),
//   - the character-class decomposition (ast.CharClassMatcher.parse).
//
// It never consults grammar.go.

import (
	"fmt"
	"strconv"
	"strings"
	"unicode"
	"unicode/utf8"
)

type pegError struct {
	pos int
	msg string
}

func (e *pegError) Error() string { return e.msg }

type pegParser struct {
	src   string
	pos   int
	notes []string
}

func readPegGrammar(src []byte) *table {
	if !utf8.Valid(src) {
		return &table{fatal: fmt.Errorf("grammar.peg is not valid UTF-8")}
	}
	p := &pegParser{src: string(src)}
	t := &table{}

	p.skipWS()
	// optional initializer code block
	if p.peek() == '{' {
		if _, err := p.codeBlock(); err != nil {
			return &table{fatal: fmt.Errorf("%s: initializer: %s", p.where(err.pos), err.msg)}
		}
		p.skipWS()
		if p.peek() == ';' {
			p.pos++
		}
	}

	for {
		p.skipWS()
		for p.peek() == ';' {
			p.pos++
			p.skipWS()
		}
		if p.eof() {
			break
		}
		start := p.pos
		name, display, ok := p.ruleHeader()
		if !ok {
			// Not at a rule definition: report and resynchronise.
			p.notes = append(p.notes, fmt.Sprintf("%s: expected a rule definition; text skipped", p.where(start)))
			p.pos = start
			if !p.resync() {
				break
			}
			continue
		}
		p.skipWS()
		e, err := p.expression()
		if err == nil {
			// pigeon: EndOfRule <- __ ';' / _ SingleLineComment? EOL / __ EOF.
			// We accept any position where a new rule header, ';' or EOF follows.
			save := p.pos
			p.skipWS()
			if !(p.eof() || p.peek() == ';' || p.atRuleHeader()) {
				err = &pegError{p.pos, fmt.Sprintf("unexpected %s", p.describeHere())}
			} else {
				p.pos = save
			}
		}
		if err != nil {
			e = unsupported("%s: %s", p.where(err.pos), err.msg)
			if err.pos > p.pos {
				p.pos = err.pos
			}
			t.rules = append(t.rules, rule{name: name, displayName: display, expr: e})
			if !p.resync() {
				break
			}
			continue
		}
		t.rules = append(t.rules, rule{name: name, displayName: display, expr: e})
	}

	if len(t.rules) == 0 {
		return &table{fatal: fmt.Errorf("no rule could be read from grammar.peg")}
	}

	// pigeon's builder passes
	for i := range t.rules {
		b := &pegBuilder{ruleName: t.rules[i].name}
		b.number(t.rules[i].expr)
		b.pushArgsSet()
		b.writeExprCode(t.rules[i].expr)
		b.popArgsSet()
		for _, n := range b.coded {
			params := n.params
			if params == nil {
				params = []string{}
			}
			t.actions = append(t.actions, actionCode{name: n.name, params: params, body: goTokens(n.code)})
		}
	}
	t.notes = p.notes
	return t
}

// ---------------------------------------------------------------------------
// pigeon builder: numbering and argument scoping

type pegBuilder struct {
	ruleName  string
	exprIndex int
	coded     []*expr // action / code predicate nodes in pre-order
	argsStack [][]string
}

// number mirrors builder.writeExpr: every node bumps exprIndex on entry; an
// action / code predicate takes the index current at that moment.
func (b *pegBuilder) number(e *expr) {
	if e == nil {
		return
	}
	b.exprIndex++
	if e.hasCode {
		e.name = "on" + b.ruleName + strconv.Itoa(b.exprIndex)
		b.coded = append(b.coded, e)
	}
	if e.kind == kUnsupported {
		return
	}
	for _, k := range e.kids {
		b.number(k)
	}
}

func (b *pegBuilder) pushArgsSet() { b.argsStack = append(b.argsStack, nil) }
func (b *pegBuilder) popArgsSet()  { b.argsStack = b.argsStack[:len(b.argsStack)-1] }
func (b *pegBuilder) addArg(l string) {
	ix := len(b.argsStack) - 1
	b.argsStack[ix] = append(b.argsStack[ix], l)
}
func (b *pegBuilder) currentArgs() []string {
	return append([]string{}, b.argsStack[len(b.argsStack)-1]...)
}

// writeExprCode mirrors builder.writeExprCode.
func (b *pegBuilder) writeExprCode(e *expr) {
	if e == nil {
		return
	}
	switch e.kind {
	case kAction:
		b.writeExprCode(e.kids[0])
		e.params = b.currentArgs()
	case kAndCode, kNotCode:
		e.params = b.currentArgs()
	case kLabeled:
		b.addArg(e.name)
		b.pushArgsSet()
		b.writeExprCode(e.kids[0])
		b.popArgsSet()
	case kAndP, kNotP, kZeroOrOne, kZeroOrMore, kOneOrMore:
		b.pushArgsSet()
		b.writeExprCode(e.kids[0])
		b.popArgsSet()
	case kChoice:
		for _, alt := range e.kids {
			b.pushArgsSet()
			b.writeExprCode(alt)
			b.popArgsSet()
		}
	case kSeq:
		for _, sub := range e.kids {
			b.writeExprCode(sub)
		}
	}
}

// ---------------------------------------------------------------------------
// lexical helpers

func (p *pegParser) eof() bool { return p.pos >= len(p.src) }

func (p *pegParser) peek() rune {
	if p.eof() {
		return -1
	}
	r, _ := utf8.DecodeRuneInString(p.src[p.pos:])
	return r
}

func (p *pegParser) hasPrefix(s string) bool { return strings.HasPrefix(p.src[p.pos:], s) }

func (p *pegParser) where(pos int) string {
	if pos > len(p.src) {
		pos = len(p.src)
	}
	line := 1 + strings.Count(p.src[:pos], "\n")
	col := pos - (strings.LastIndex(p.src[:pos], "\n") + 1) + 1
	return fmt.Sprintf("grammar.peg:%d:%d", line, col)
}

func (p *pegParser) describeHere() string {
	if p.eof() {
		return "end of file"
	}
	return fmt.Sprintf("%q", p.peek())
}

// skipWS skips pigeon's `__`: whitespace, newlines and comments.  `//{` is the
// recovery operator, not a comment.
func (p *pegParser) skipWS() {
	for !p.eof() {
		c := p.src[p.pos]
		switch {
		case c == ' ' || c == '\t' || c == '\r' || c == '\n' || c == '\f' || c == '\v':
			p.pos++
		case p.hasPrefix("\uFEFF"):
			p.pos += len("\uFEFF")
		case p.hasPrefix("//") && !p.hasPrefix("//{"):
			i := strings.IndexByte(p.src[p.pos:], '\n')
			if i < 0 {
				p.pos = len(p.src)
			} else {
				p.pos += i
			}
		case p.hasPrefix("/*"):
			i := strings.Index(p.src[p.pos+2:], "*/")
			if i < 0 {
				p.pos = len(p.src)
			} else {
				p.pos += 2 + i + 2
			}
		default:
			return
		}
	}
}

func isIdentStart(r rune) bool { return r == '_' || unicode.IsLetter(r) }
func isIdentPart(r rune) bool  { return isIdentStart(r) || unicode.Is(unicode.Nd, r) }

func (p *pegParser) identifier() (string, bool) {
	if !isIdentStart(p.peek()) {
		return "", false
	}
	start := p.pos
	for !p.eof() && isIdentPart(p.peek()) {
		_, n := utf8.DecodeRuneInString(p.src[p.pos:])
		p.pos += n
	}
	return p.src[start:p.pos], true
}

func (p *pegParser) ruleDefOp() bool {
	for _, op := range []string{"<-", "=", "←", "⟵"} {
		if p.hasPrefix(op) {
			p.pos += len(op)
			return true
		}
	}
	return false
}

// ruleHeader parses `Name "display"? RuleDefOp`.  On failure the position is
// unspecified (callers restore it).
func (p *pegParser) ruleHeader() (name, display string, ok bool) {
	name, ok = p.identifier()
	if !ok {
		return "", "", false
	}
	p.skipWS()
	if c := p.peek(); c == '"' || c == '\'' || c == '`' {
		raw, err := p.rawString()
		if err != nil {
			return "", "", false
		}
		display = raw // pigeon keeps the raw text, quotes included
		p.skipWS()
	}
	if !p.ruleDefOp() {
		return "", "", false
	}
	return name, display, true
}

func (p *pegParser) atRuleHeader() bool {
	save := p.pos
	_, _, ok := p.ruleHeader()
	p.pos = save
	return ok
}

// resync moves to the next line that starts a rule definition.
func (p *pegParser) resync() bool {
	if p.pos > len(p.src) {
		p.pos = len(p.src)
	}
	// The error may have been detected exactly at the start of the next rule
	// (callers guarantee p.pos is past the header of the rule being abandoned).
	if p.pos > 0 && p.pos < len(p.src) && p.src[p.pos-1] == '\n' && p.atRuleHeader() {
		return true
	}
	for {
		i := strings.IndexByte(p.src[p.pos:], '\n')
		if i < 0 {
			p.pos = len(p.src)
			return false
		}
		p.pos += i + 1
		if p.atRuleHeader() {
			return true
		}
	}
}

// rawString scans a "…", '…' or `…` literal and returns its raw text.
func (p *pegParser) rawString() (string, *pegError) {
	start := p.pos
	q := p.src[p.pos]
	p.pos++
	for !p.eof() {
		c := p.src[p.pos]
		switch {
		case c == q:
			p.pos++
			return p.src[start:p.pos], nil
		case c == '\\' && q != '`':
			p.pos += 2
		case c == '\n' && q != '`':
			return "", &pegError{start, "string literal not terminated"}
		default:
			p.pos++
		}
	}
	p.pos = len(p.src)
	return "", &pegError{start, "string literal not terminated"}
}

// codeBlock scans `{ ... }` with balanced braces, skipping Go string / rune
// literals and comments, and returns the text between the outer braces.
func (p *pegParser) codeBlock() (string, *pegError) {
	start := p.pos
	if p.peek() != '{' {
		return "", &pegError{p.pos, "expected code block"}
	}
	p.pos++
	depth := 1
	for !p.eof() {
		c := p.src[p.pos]
		switch {
		case c == '{':
			depth++
			p.pos++
		case c == '}':
			depth--
			p.pos++
			if depth == 0 {
				return p.src[start+1 : p.pos-1], nil
			}
		case c == '"' || c == '`' || c == '\'':
			p.skipGoLiteral(c)
		case p.hasPrefix("//"):
			i := strings.IndexByte(p.src[p.pos:], '\n')
			if i < 0 {
				p.pos = len(p.src)
			} else {
				p.pos += i
			}
		case p.hasPrefix("/*"):
			i := strings.Index(p.src[p.pos+2:], "*/")
			if i < 0 {
				p.pos = len(p.src)
			} else {
				p.pos += 2 + i + 2
			}
		default:
			p.pos++
		}
	}
	return "", &pegError{start, "code block not terminated"}
}

// skipGoLiteral skips a Go string, raw string or rune literal that starts at
// p.pos with quote q.  An interpreted literal that is not closed on its line
// ends at the newline (scanning resumes normally, as go/scanner would).
func (p *pegParser) skipGoLiteral(q byte) {
	p.pos++
	for !p.eof() {
		c := p.src[p.pos]
		switch {
		case c == q:
			p.pos++
			return
		case c == '\\' && q != '`':
			p.pos += 2
		case c == '\n' && q != '`':
			return
		default:
			p.pos++
		}
	}
	p.pos = len(p.src)
}

// ---------------------------------------------------------------------------
// expressions (pigeon.peg: Expression <- RecoveryExpr <- ChoiceExpr <- ActionExpr
// <- SeqExpr <- LabeledExpr <- PrefixedExpr <- SuffixedExpr <- PrimaryExpr)

func (p *pegParser) expression() (*expr, *pegError) {
	e, err := p.choiceExpr()
	if err != nil {
		return nil, err
	}
	recovered := false
	for {
		save := p.pos
		p.skipWS()
		if !p.hasPrefix("//{") {
			p.pos = save
			break
		}
		// `//{ label, ... } ChoiceExpr`
		p.pos += 3
		i := strings.IndexByte(p.src[p.pos:], '}')
		if i < 0 {
			return nil, &pegError{save, "recovery labels not terminated"}
		}
		p.pos += i + 1
		p.skipWS()
		if _, err := p.choiceExpr(); err != nil {
			return nil, err
		}
		recovered = true
	}
	if recovered {
		return unsupported("recoveryExpr"), nil
	}
	return e, nil
}

func (p *pegParser) choiceExpr() (*expr, *pegError) {
	first, err := p.actionExpr()
	if err != nil {
		return nil, err
	}
	alts := []*expr{first}
	for {
		save := p.pos
		p.skipWS()
		if p.peek() == '/' && !p.hasPrefix("//") && !p.hasPrefix("/*") {
			p.pos++
			p.skipWS()
			alt, err := p.actionExpr()
			if err != nil {
				return nil, err
			}
			alts = append(alts, alt)
			continue
		}
		p.pos = save
		break
	}
	if len(alts) == 1 {
		return first, nil
	}
	return &expr{kind: kChoice, kids: alts}, nil
}

func (p *pegParser) actionExpr() (*expr, *pegError) {
	e, err := p.seqExpr()
	if err != nil {
		return nil, err
	}
	save := p.pos
	p.skipWS()
	if p.peek() == '{' {
		code, err := p.codeBlock()
		if err != nil {
			return nil, err
		}
		return &expr{kind: kAction, kids: []*expr{e}, code: code, hasCode: true}, nil
	}
	p.pos = save
	return e, nil
}

func (p *pegParser) seqExpr() (*expr, *pegError) {
	var items []*expr
	for {
		save := p.pos
		p.skipWS()
		if !p.startsLabeledExpr() {
			p.pos = save
			break
		}
		it, err := p.labeledExpr()
		if err != nil {
			return nil, err
		}
		items = append(items, it)
	}
	switch len(items) {
	case 0:
		p.skipWS()
		return nil, &pegError{p.pos, fmt.Sprintf("expected an expression, found %s", p.describeHere())}
	case 1:
		return items[0], nil
	}
	return &expr{kind: kSeq, kids: items}, nil
}

// startsLabeledExpr decides whether another sequence element follows.
func (p *pegParser) startsLabeledExpr() bool {
	if p.eof() {
		return false
	}
	c := p.peek()
	switch c {
	case '"', '\'', '`', '[', '.', '(', '&', '!', '#', '%':
		return true
	}
	if isIdentStart(c) {
		// RuleRefExpr <- IdentifierName !( __ ( StringLiteral __ )? RuleDefOp )
		return !p.atRuleHeader()
	}
	return false
}

func (p *pegParser) labeledExpr() (*expr, *pegError) {
	if isIdentStart(p.peek()) {
		save := p.pos
		label, _ := p.identifier()
		p.skipWS()
		if p.peek() == ':' {
			p.pos++
			p.skipWS()
			e, err := p.prefixedExpr()
			if err != nil {
				return nil, err
			}
			return &expr{kind: kLabeled, name: label, kids: []*expr{e}}, nil
		}
		p.pos = save
	}
	if p.hasPrefix("%{") { // ThrowExpr <- '%' '{' IdentifierName '}'
		start := p.pos
		i := strings.IndexByte(p.src[p.pos:], '}')
		if i < 0 {
			return nil, &pegError{start, "throw expression not terminated"}
		}
		p.pos += i + 1
		return unsupported("throwExpr"), nil
	}
	return p.prefixedExpr()
}

func (p *pegParser) prefixedExpr() (*expr, *pegError) {
	c := p.peek()
	if c == '&' || c == '!' {
		save := p.pos
		p.pos++
		p.skipWS()
		if p.peek() == '{' {
			// a semantic predicate is a PrimaryExpr, it may carry a suffix
			p.pos = save
			return p.suffixedExpr()
		}
		e, err := p.suffixedExpr()
		if err != nil {
			return nil, err
		}
		k := kAndP
		if c == '!' {
			k = kNotP
		}
		return &expr{kind: k, kids: []*expr{e}}, nil
	}
	return p.suffixedExpr()
}

func (p *pegParser) suffixedExpr() (*expr, *pegError) {
	e, err := p.primaryExpr()
	if err != nil {
		return nil, err
	}
	save := p.pos
	p.skipWS()
	var k kind
	switch p.peek() {
	case '?':
		k = kZeroOrOne
	case '*':
		k = kZeroOrMore
	case '+':
		k = kOneOrMore
	default:
		p.pos = save
		return e, nil
	}
	p.pos++
	return &expr{kind: k, kids: []*expr{e}}, nil
}

func (p *pegParser) primaryExpr() (*expr, *pegError) {
	c := p.peek()
	switch {
	case c == '"' || c == '\'' || c == '`':
		return p.litMatcher()
	case c == '[':
		return p.charClass()
	case c == '.':
		p.pos++
		return &expr{kind: kAny}, nil
	case isIdentStart(c):
		name, _ := p.identifier()
		return &expr{kind: kRuleRef, name: name}, nil
	case c == '(':
		open := p.pos
		p.pos++
		p.skipWS()
		e, err := p.expression()
		if err != nil {
			return nil, err
		}
		p.skipWS()
		if p.peek() != ')' {
			return nil, &pegError{p.pos, fmt.Sprintf("expected ')' to close the group opened at %s, found %s",
				p.where(open), p.describeHere())}
		}
		p.pos++
		return e, nil // pigeon represents a group by its inner expression
	case c == '&' || c == '!' || c == '#':
		start := p.pos
		p.pos++
		p.skipWS()
		if p.peek() != '{' {
			return nil, &pegError{start, fmt.Sprintf("unexpected %q", c)}
		}
		code, err := p.codeBlock()
		if err != nil {
			return nil, err
		}
		switch c {
		case '&':
			return &expr{kind: kAndCode, code: code, hasCode: true}, nil
		case '!':
			return &expr{kind: kNotCode, code: code, hasCode: true}, nil
		}
		return unsupported("stateCodeExpr"), nil
	}
	return nil, &pegError{p.pos, fmt.Sprintf("unexpected %s", p.describeHere())}
}

func (p *pegParser) litMatcher() (*expr, *pegError) {
	start := p.pos
	raw, err := p.rawString()
	if err != nil {
		return nil, err
	}
	ignore := false
	if p.peek() == 'i' { // LitMatcher <- lit:StringLiteral ignore:"i"?
		ignore = true
		p.pos++
	}
	val, uerr := strconv.Unquote(raw)
	if uerr != nil {
		// pigeon rejects the grammar (e.g. a single-quoted literal must hold exactly one character)
		return unsupported("%s: invalid string literal %s", p.where(start), raw), nil
	}
	// pigeon's builder: want = strconv.Quote(lit.Val) + "i"? (of the literal as written), val is
	// lower-cased for an ignore-case literal
	want := strconv.Quote(val)
	if ignore {
		want += "i"
		val = strings.ToLower(val)
	}
	return &expr{kind: kLit, val: []rune(val), ignoreCase: ignore, want: want, hasWant: true}, nil
}

// charClass scans `[...]i?` and decomposes it like ast.CharClassMatcher.parse.
func (p *pegParser) charClass() (*expr, *pegError) {
	start := p.pos
	p.pos++ // [
	closed := false
	for !p.eof() {
		c := p.src[p.pos]
		if c == '\\' {
			p.pos += 2
			continue
		}
		if c == '\n' {
			break
		}
		p.pos++
		if c == ']' {
			closed = true
			break
		}
	}
	if !closed {
		if p.pos > len(p.src) {
			p.pos = len(p.src)
		}
		return nil, &pegError{start, "character class not terminated"}
	}
	raw := p.src[start+1 : p.pos-1]
	e := &expr{kind: kCharClass}
	if p.peek() == 'i' {
		e.ignoreCase = true
		p.pos++
	}
	// pigeon: ast.NewCharClassMatcher(pos, string(c.text)) keeps the whole source text of the
	// class (brackets and the optional `i` included) as Val, which the builder prints as `val:`
	e.want, e.hasWant = p.src[start:p.pos], true
	if strings.HasPrefix(raw, "^") {
		e.inverted = true
		raw = raw[1:]
	}

	// first pass: resolve escapes and unicode classes into a flat rune list
	type item struct {
		r       rune
		literal bool // produced by `\-`: never a range operator
	}
	var flat []item
	rs := []rune(raw)
	bad := func(what string) (*expr, *pegError) {
		return unsupported("%s: character class [%s]: %s", p.where(start), raw, what), nil
	}
	for i := 0; i < len(rs); i++ {
		r := rs[i]
		if r != '\\' {
			flat = append(flat, item{r: r})
			continue
		}
		i++
		if i >= len(rs) {
			return bad("dangling backslash")
		}
		esc := rs[i]
		switch esc {
		case ']':
			flat = append(flat, item{r: ']'})
			continue
		case '-':
			flat = append(flat, item{r: '-', literal: true})
			continue
		case 'p':
			i++
			if i >= len(rs) {
				return bad("incomplete \\p escape")
			}
			if rs[i] == '{' {
				j := i + 1
				for j < len(rs) && rs[j] != '}' {
					j++
				}
				if j >= len(rs) {
					return bad("\\p{ not terminated")
				}
				e.classes = append(e.classes, string(rs[i+1:j]))
				i = j
			} else {
				e.classes = append(e.classes, string(rs[i]))
			}
			continue
		}
		n := 0
		switch esc {
		case 'x':
			n = 2
		case 'u':
			n = 4
		case 'U':
			n = 8
		case '0', '1', '2', '3', '4', '5', '6', '7':
			n = 2
		}
		if i+n >= len(rs) {
			return bad("incomplete escape sequence")
		}
		seq := "\\" + string(rs[i:i+n+1])
		i += n
		c, _, tail, uerr := strconv.UnquoteChar(seq, 0)
		if uerr != nil || tail != "" {
			return bad("invalid escape " + seq)
		}
		flat = append(flat, item{r: c})
	}

	// second pass: split into chars and ranges, in order of appearance
	inRange, wasRange := false, false
	for i, it := range flat {
		r := it.r
		if e.ignoreCase {
			r = unicode.ToLower(r)
		}
		if inRange {
			e.ranges = append(e.ranges, r)
			inRange = false
			wasRange = true
			continue
		}
		if r == '-' && !it.literal && !wasRange && len(e.chars) > 0 && i < len(flat)-1 {
			inRange = true
			wasRange = false
			e.ranges = append(e.ranges, e.chars[len(e.chars)-1])
			e.chars = e.chars[:len(e.chars)-1]
			continue
		}
		wasRange = false
		e.chars = append(e.chars, r)
	}
	for _, cl := range e.classes {
		if !knownUnicodeClass(cl) {
			return bad("unknown unicode class " + cl)
		}
	}
	return e, nil
}

func knownUnicodeClass(name string) bool {
	if _, ok := unicode.Categories[name]; ok {
		return true
	}
	if _, ok := unicode.Properties[name]; ok {
		return true
	}
	_, ok := unicode.Scripts[name]
	return ok
}
