package main

// emit.go: the shared PEG model, the driver of the `grammar` subcommand and the
// Lean pretty-printer.
//
// The two readers (grammar_go.go for T1, grammar_peg.go for T2) are completely
// independent of each other: each produces a *table from the bytes of exactly
// one source file.  Nothing in this file ever moves information from one table
// into the other; the tables are only printed.

import (
	"crypto/sha256"
	"flag"
	"fmt"
	"os"
	"path/filepath"
	"strconv"
	"strings"
)

// ---------------------------------------------------------------------------
// Model (mirror of Bexpr.Peg.PExpr / Rule / ActionCode in Bexpr/Peg/Syntax.lean)

type kind int

const (
	kChoice kind = iota
	kSeq
	kAction
	kLabeled
	kRuleRef
	kLit
	kCharClass
	kAny
	kAndP
	kNotP
	kAndCode
	kNotCode
	kZeroOrOne
	kZeroOrMore
	kOneOrMore
	kUnsupported
)

// expr is one PEG expression node.
type expr struct {
	kind kind
	// name: function name (action, andCode, notCode), rule name (ruleRef),
	// label (labeled) or description (unsupported).
	name string
	kids []*expr // choice/seq: all; action/labeled/andP/notP/repetitions: exactly one

	// lit
	val []rune
	// lit + charClass
	ignoreCase bool
	// charClass
	inverted bool
	chars    []rune
	ranges   []rune
	classes  []string

	// lit: the `want` string, charClass: the `val` string (the text failAt records for the
	// "no match found, expected: ..." message); only read by the failnames subcommand.
	// grammar.go: the field as written; grammar.peg: derived the way pigeon's builder derives it.
	want    string
	hasWant bool

	// Only used by the PEG reader (T2).
	code    string   // text between the braces of an action / predicate code block
	hasCode bool     // node carries a code block
	params  []string // labels computed by pigeon's scoping rules
}

func unsupported(format string, args ...any) *expr {
	return &expr{kind: kUnsupported, name: fmt.Sprintf(format, args...)}
}

type rule struct {
	name        string
	displayName string
	expr        *expr
}

type actionCode struct {
	name    string
	params  []string
	body    []string
	comment string // optional `-- ...` comment line(s) emitted above the def
}

// table is what one reader extracts from one source file.
type table struct {
	rules   []rule
	actions []actionCode
	notes   []string // diagnostics, emitted as comments in the grammar file
	fatal   error    // source could not be parsed at all
}

// ---------------------------------------------------------------------------
// Driver

func runGrammar(args []string) int {
	fs := flag.NewFlagSet("grammar", flag.ContinueOnError)
	repo := fs.String("repo", "/repo", "root of the go-bexpr source tree")
	out := fs.String("out", "/verif/lean/BexprGen", "output directory for the generated Lean files")
	if err := fs.Parse(args); err != nil {
		return 64
	}
	if fs.NArg() != 0 {
		fmt.Fprintf(os.Stderr, "xlate grammar: unexpected arguments %q\n", fs.Args())
		return 64
	}

	goPath := filepath.Join(*repo, "grammar", "grammar.go")
	pegPath := filepath.Join(*repo, "grammar", "grammar.peg")

	outputs := []string{"GoGrammar.lean", "PegGrammar.lean", "GoActions.lean", "PegActions.lean"}
	if err := os.MkdirAll(*out, 0o755); err != nil {
		fmt.Fprintf(os.Stderr, "xlate grammar: %v\n", err)
		return 1
	}
	for _, f := range outputs {
		if err := os.Remove(filepath.Join(*out, f)); err != nil && !os.IsNotExist(err) {
			fmt.Fprintf(os.Stderr, "xlate grammar: cannot remove stale output: %v\n", err)
			return 1
		}
	}

	exit := 0
	type job struct {
		src   string
		ns    string
		read  func(src []byte) *table
		gfile string
		afile string
	}
	jobs := []job{
		{goPath, "Go", readGoGrammar, "GoGrammar.lean", "GoActions.lean"},
		{pegPath, "Peg", readPegGrammar, "PegGrammar.lean", "PegActions.lean"},
	}
	for _, j := range jobs {
		var t *table
		sum := "unavailable"
		src, err := os.ReadFile(j.src)
		if err != nil {
			t = &table{fatal: err}
		} else {
			sum = fmt.Sprintf("%x", sha256.Sum256(src))
			t = safeRead(j.read, src)
		}
		if t.fatal != nil {
			fmt.Fprintf(os.Stderr, "xlate grammar: %s: cannot be parsed: %v\n", j.src, t.fatal)
			exit = 2
			t.rules, t.actions = nil, nil
		}
		g := emitGrammarFile(j.src, sum, "BexprGen."+j.ns+"Grammar", t)
		a := emitActionsFile(j.src, sum, "BexprGen."+j.ns+"Actions", t)
		for _, w := range [][2]string{{j.gfile, g}, {j.afile, a}} {
			if err := os.WriteFile(filepath.Join(*out, w[0]), []byte(w[1]), 0o644); err != nil {
				fmt.Fprintf(os.Stderr, "xlate grammar: %v\n", err)
				return 1
			}
		}
		fmt.Printf("%s: %d rules, %d actions/predicates -> %s, %s\n",
			j.src, len(t.rules), len(t.actions), filepath.Join(*out, j.gfile), filepath.Join(*out, j.afile))
	}
	return exit
}

// safeRead turns a panic inside a reader into a fatal table so that output
// files are still written.
func safeRead(read func([]byte) *table, src []byte) (t *table) {
	defer func() {
		if r := recover(); r != nil {
			t = &table{fatal: fmt.Errorf("internal error: %v", r)}
		}
	}()
	return read(src)
}

// ---------------------------------------------------------------------------
// Lean file emitters

const maxWidth = 118

func header(b *strings.Builder, srcPath, sum, ns string, t *table) {
	fmt.Fprintf(b, "-- GENERATED by /verif/xlate from %s; do not edit.\n", srcPath)
	fmt.Fprintf(b, "-- source SHA-256: %s\n", sum)
	if t.fatal != nil {
		for _, l := range strings.Split(t.fatal.Error(), "\n") {
			fmt.Fprintf(b, "-- ERROR: source could not be parsed: %s\n", commentSafe(l))
		}
	}
	b.WriteString("import Bexpr.Peg.Syntax\n\n")
	fmt.Fprintf(b, "namespace %s\n\nopen Bexpr.Peg\n\n", ns)
}

func commentSafe(s string) string {
	s = strings.ReplaceAll(s, "\r", " ")
	s = strings.ReplaceAll(s, "\n", " ")
	return s
}

func emitGrammarFile(srcPath, sum, ns string, t *table) string {
	var b strings.Builder
	header(&b, srcPath, sum, ns, t)
	for _, n := range t.notes {
		fmt.Fprintf(&b, "-- NOTE: %s\n", commentSafe(n))
	}
	if len(t.notes) > 0 {
		b.WriteString("\n")
	}
	names := make([]doc, 0, len(t.rules))
	for i, r := range t.rules {
		fmt.Fprintf(&b, "def rule_%d : Rule := {\n", i)
		fmt.Fprintf(&b, "  name := %s,\n", leanString(r.name))
		fmt.Fprintf(&b, "  displayName := %s,\n", leanString(r.displayName))
		b.WriteString("  expr :=\n")
		var lines []string
		layout(exprDoc(r.expr), 4, "", &lines)
		for _, l := range lines {
			b.WriteString(l)
			b.WriteString("\n")
		}
		b.WriteString("}\n\n")
		names = append(names, atom(fmt.Sprintf("rule_%d", i)))
	}
	emitListDef(&b, "grammar", "Grammar", names)
	fmt.Fprintf(&b, "\nend %s\n", ns)
	return b.String()
}

func emitActionsFile(srcPath, sum, ns string, t *table) string {
	var b strings.Builder
	header(&b, srcPath, sum, ns, t)
	names := make([]doc, 0, len(t.actions))
	for i, a := range t.actions {
		if a.comment != "" {
			for _, l := range strings.Split(a.comment, "\n") {
				fmt.Fprintf(&b, "-- %s\n", commentSafe(l))
			}
		}
		fmt.Fprintf(&b, "def act_%d : ActionCode := {\n", i)
		fmt.Fprintf(&b, "  name := %s,\n", leanString(a.name))
		emitField(&b, "params", stringListDoc(a.params), ",")
		emitField(&b, "body", stringListDoc(a.body), "")
		b.WriteString("}\n\n")
		names = append(names, atom(fmt.Sprintf("act_%d", i)))
	}
	emitListDef(&b, "actions", "List ActionCode", names)
	fmt.Fprintf(&b, "\nend %s\n", ns)
	return b.String()
}

// emitField prints `  field := <doc><suffix>`, breaking after `[` if needed.
func emitField(b *strings.Builder, field string, d doc, suffix string) {
	prefix := "  " + field + " := "
	flat := d.flat()
	if len(prefix)+len(flat)+len(suffix) <= maxWidth {
		b.WriteString(prefix + flat + suffix + "\n")
		return
	}
	var lines []string
	layout(d, 2, suffix, &lines)
	// first line is "  [" -> splice the field name in front of the bracket
	lines[0] = prefix + strings.TrimLeft(lines[0], " ")
	for _, l := range lines {
		b.WriteString(l + "\n")
	}
}

func emitListDef(b *strings.Builder, name, typ string, items []doc) {
	d := list(items...)
	head := fmt.Sprintf("def %s : %s := ", name, typ)
	flat := d.flat()
	if len(head)+len(flat) <= maxWidth {
		b.WriteString(head + flat + "\n")
		return
	}
	var lines []string
	layout(d, 0, "", &lines)
	lines[0] = head + lines[0] // "[" opens on the def line
	for _, l := range lines {
		b.WriteString(l + "\n")
	}
}

// ---------------------------------------------------------------------------
// Conversion of the model to printable documents

func exprDoc(e *expr) doc {
	if e == nil {
		return app("PExpr.unsupported", atom(leanString("nil expression")))
	}
	kidDocs := func() []doc {
		ds := make([]doc, len(e.kids))
		for i, k := range e.kids {
			ds[i] = exprDoc(k)
		}
		return ds
	}
	one := func() doc {
		if len(e.kids) != 1 {
			return app("PExpr.unsupported", atom(leanString("malformed node: expected exactly one sub-expression")))
		}
		return exprDoc(e.kids[0])
	}
	switch e.kind {
	case kChoice:
		return app("PExpr.choice", list(kidDocs()...))
	case kSeq:
		return app("PExpr.seq", list(kidDocs()...))
	case kAction:
		return app("PExpr.action", atom(leanString(e.name)), one())
	case kLabeled:
		return app("PExpr.labeled", atom(leanString(e.name)), one())
	case kRuleRef:
		return app("PExpr.ruleRef", atom(leanString(e.name)))
	case kLit:
		return app("PExpr.lit", runeListDoc(e.val), atom(leanBool(e.ignoreCase)))
	case kCharClass:
		return app("PExpr.charClass", runeListDoc(e.chars), runeListDoc(e.ranges), stringListDoc(e.classes),
			atom(leanBool(e.ignoreCase)), atom(leanBool(e.inverted)))
	case kAny:
		return atom("PExpr.any")
	case kAndP:
		return app("PExpr.andP", one())
	case kNotP:
		return app("PExpr.notP", one())
	case kAndCode:
		return app("PExpr.andCode", atom(leanString(e.name)))
	case kNotCode:
		return app("PExpr.notCode", atom(leanString(e.name)))
	case kZeroOrOne:
		return app("PExpr.zeroOrOne", one())
	case kZeroOrMore:
		return app("PExpr.zeroOrMore", one())
	case kOneOrMore:
		return app("PExpr.oneOrMore", one())
	case kUnsupported:
		return app("PExpr.unsupported", atom(leanString(e.name)))
	}
	return app("PExpr.unsupported", atom(leanString(fmt.Sprintf("unknown node kind %d", int(e.kind)))))
}

func runeListDoc(rs []rune) doc {
	ds := make([]doc, len(rs))
	for i, r := range rs {
		ds[i] = atom(strconv.FormatUint(uint64(uint32(r)), 10))
	}
	return list(ds...)
}

func stringListDoc(ss []string) doc {
	ds := make([]doc, len(ss))
	for i, s := range ss {
		ds[i] = atom(leanString(s))
	}
	return list(ds...)
}

func leanBool(b bool) string {
	if b {
		return "true"
	}
	return "false"
}

// leanString renders s as a Lean 4 string literal.  Only \n \t \\ \" \xHH and
// \uHHHH escapes are produced; every rune outside printable ASCII up to U+FFFF
// is escaped.
func leanString(s string) string {
	var b strings.Builder
	b.WriteByte('"')
	for _, r := range s {
		switch {
		case r == '\\':
			b.WriteString(`\\`)
		case r == '"':
			b.WriteString(`\"`)
		case r == '\n':
			b.WriteString(`\n`)
		case r == '\t':
			b.WriteString(`\t`)
		case r >= 0x20 && r < 0x7f:
			b.WriteRune(r)
		case r < 0x100:
			fmt.Fprintf(&b, `\x%02X`, r)
		case r <= 0xFFFF:
			fmt.Fprintf(&b, `\u%04X`, r)
		default:
			// Lean 4 has no escape for code points above U+FFFF (\u takes exactly
			// four hex digits, `\u{...}` is rejected); the source is UTF-8, so
			// the rune is written as is.
			b.WriteRune(r)
		}
	}
	b.WriteByte('"')
	return b.String()
}

// ---------------------------------------------------------------------------
// A tiny pretty-printer: atoms, applications `f a b c`, and lists `[a, b]`.

type docKind int

const (
	dAtom docKind = iota
	dApp
	dList
)

type doc struct {
	kind  docKind
	text  string // atom text or application head
	items []doc
}

func atom(s string) doc             { return doc{kind: dAtom, text: s} }
func app(head string, a ...doc) doc { return doc{kind: dApp, text: head, items: a} }
func list(items ...doc) doc         { return doc{kind: dList, items: items} }

func (d doc) flat() string {
	switch d.kind {
	case dAtom:
		return d.text
	case dApp:
		var b strings.Builder
		b.WriteString(d.text)
		for _, a := range d.items {
			b.WriteByte(' ')
			if a.kind == dApp && len(a.items) > 0 {
				b.WriteString("(" + a.flat() + ")")
			} else {
				b.WriteString(a.flat())
			}
		}
		return b.String()
	default:
		parts := make([]string, len(d.items))
		for i, it := range d.items {
			parts[i] = it.flat()
		}
		return "[" + strings.Join(parts, ", ") + "]"
	}
}

func (d doc) allAtoms() bool {
	for _, it := range d.items {
		if it.kind != dAtom {
			return false
		}
	}
	return true
}

func pad(n int) string { return strings.Repeat(" ", n) }

// layout appends the lines of d, indented by indent, the last line followed
// by suffix.  Lines are kept within maxWidth where the content allows it.
func layout(d doc, indent int, suffix string, out *[]string) {
	flat := d.flat()
	if indent+len(flat)+len(suffix) <= maxWidth || d.kind == dAtom {
		*out = append(*out, pad(indent)+flat+suffix)
		return
	}
	switch d.kind {
	case dList:
		*out = append(*out, pad(indent)+"[")
		layoutItems(d, indent+2, out)
		*out = append(*out, pad(indent)+"]"+suffix)
	case dApp:
		// head and leading atomic arguments stay on the first line
		line := d.text
		i := 0
		for i < len(d.items) && d.items[i].kind == dAtom {
			line += " " + d.items[i].text
			i++
		}
		rest := d.items[i:]
		if len(rest) == 0 {
			// only atoms, too long for one line: nothing to break at
			*out = append(*out, pad(indent)+line+suffix)
			return
		}
		if len(rest) == 1 {
			last := rest[0]
			if last.kind == dList {
				*out = append(*out, pad(indent)+line+" [")
				layoutItems(last, indent+2, out)
				*out = append(*out, pad(indent)+"]"+suffix)
			} else {
				*out = append(*out, pad(indent)+line+" (")
				layout(last, indent+2, "", out)
				*out = append(*out, pad(indent)+")"+suffix)
			}
			return
		}
		*out = append(*out, pad(indent)+line)
		for j, a := range rest {
			sfx := ""
			if j == len(rest)-1 {
				sfx = suffix
			}
			if a.kind == dApp && len(a.items) > 0 {
				f := "(" + a.flat() + ")"
				if indent+2+len(f)+len(sfx) <= maxWidth {
					*out = append(*out, pad(indent+2)+f+sfx)
				} else {
					*out = append(*out, pad(indent+2)+"(")
					layout(a, indent+4, "", out)
					*out = append(*out, pad(indent+2)+")"+sfx)
				}
			} else {
				layout(a, indent+2, sfx, out)
			}
		}
	}
}

// layoutItems prints the items of a list: atoms are filled into lines, other
// items are printed one per line.
func layoutItems(d doc, indent int, out *[]string) {
	n := len(d.items)
	if d.allAtoms() {
		line := ""
		for i, it := range d.items {
			piece := it.text
			if i < n-1 {
				piece += ","
			}
			switch {
			case line == "":
				line = pad(indent) + piece
			case len(line)+1+len(piece) <= maxWidth:
				line += " " + piece
			default:
				*out = append(*out, line)
				line = pad(indent) + piece
			}
		}
		if line != "" {
			*out = append(*out, line)
		}
		return
	}
	for i, it := range d.items {
		sfx := ","
		if i == n-1 {
			sfx = ""
		}
		layout(it, indent, sfx, out)
	}
}
