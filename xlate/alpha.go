// Rename-back normalisation of local identifiers.
//
// The token pins and the recognisers of this translator speak about functions with the local
// names they had when the Lean expectations were written (pins/locals.json: function ↦ the names
// of its binders — receiver, parameters, results, :=, var/const, range and type-switch bindings,
// function-literal parameters — in source order, one entry per declaration, so a shadowing
// redeclaration counts again).  A consistent renaming of parameters and local variables does not
// change what a function does, so before anything is extracted each function that has the pinned
// NUMBER of binders, but other names, is renamed back: every occurrence that go/parser's scope
// resolution binds to the k-th binder gets the pinned k-th name.
//
// The renaming is checked, not assumed, to be capture free: the renamed text is parsed again and
// every identifier occurrence must resolve to the binder with the same index as before (and every
// free identifier must stay free, under its own name).  A function for which that fails is left as
// written, so its pins break, as they must when nothing is known.  Hence the renamed text equals
// the pinned text only if the function is an alpha-variant of the pinned one.
package main

import (
	"encoding/json"
	"fmt"
	"go/ast"
	"go/parser"
	"go/token"
	"os"
	"path/filepath"
	"sort"
)

var pinnedLocals map[string][]string // "rel:FuncKey" ↦ binder names; nil = no renaming

func loadPinnedLocals() {
	p := os.Getenv("XLATE_LOCALS")
	if p == "" {
		return
	}
	b, err := os.ReadFile(p)
	if err != nil {
		return
	}
	m := map[string][]string{}
	if json.Unmarshal(b, &m) == nil {
		pinnedLocals = m
	}
}

// occ is one identifier occurrence of a function that can denote a local.
type occ struct {
	id     *ast.Ident
	binder int // index of the binder it resolves to; -1 = free
}

// resolveFn lists the identifier occurrences of fd in source order, each with the index of its
// binder (binders numbered by the position of their declaration), and the binder names.
// The file must have been parsed WITH object resolution.
func resolveFn(fd *ast.FuncDecl) (occs []occ, names []string) {
	skip := map[*ast.Ident]bool{}
	var ids []*ast.Ident
	ast.Inspect(fd, func(n ast.Node) bool {
		switch x := n.(type) {
		case *ast.SelectorExpr:
			skip[x.Sel] = true
		case *ast.CompositeLit:
			for _, e := range x.Elts {
				if kv, ok := e.(*ast.KeyValueExpr); ok {
					if id, ok := kv.Key.(*ast.Ident); ok {
						skip[id] = true
					}
				}
			}
		case *ast.LabeledStmt:
			skip[x.Label] = true
		case *ast.BranchStmt:
			if x.Label != nil {
				skip[x.Label] = true
			}
		case *ast.Ident:
			if !skip[x] && x != fd.Name && x.Name != "_" {
				ids = append(ids, x)
			}
		}
		return true
	})
	sort.SliceStable(ids, func(i, j int) bool { return ids[i].Pos() < ids[j].Pos() })
	local := func(id *ast.Ident) *ast.Object {
		o := id.Obj
		if o == nil || (o.Kind != ast.Var && o.Kind != ast.Con) {
			return nil
		}
		if p := o.Pos(); !p.IsValid() || p < fd.Pos() || p >= fd.End() {
			return nil
		}
		return o
	}
	var objs []*ast.Object
	seen := map[*ast.Object]bool{}
	for _, id := range ids {
		if o := local(id); o != nil && !seen[o] {
			seen[o] = true
			objs = append(objs, o)
		}
	}
	sort.SliceStable(objs, func(i, j int) bool { return objs[i].Pos() < objs[j].Pos() })
	index := map[*ast.Object]int{}
	for i, o := range objs {
		index[o] = i
		names = append(names, o.Name)
	}
	for _, id := range ids {
		b := -1
		if o := local(id); o != nil {
			b = index[o]
		}
		occs = append(occs, occ{id, b})
	}
	return occs, names
}

func parseResolved(path string, src []byte) (*token.FileSet, *ast.File) {
	fset := token.NewFileSet()
	f, err := parser.ParseFile(fset, path, src, 0)
	if err != nil {
		return fset, nil
	}
	return fset, f
}

// renameBack returns the source with every function renamed back to its pinned binder names (see
// the comment at the top of this file), or src itself when nothing applies.
func renameBack(rel, path string, src []byte) []byte {
	if pinnedLocals == nil {
		return src
	}
	fset, file := parseResolved(path, src)
	if file == nil {
		return src
	}
	refused := map[string]bool{}
	for round := 0; round < 50; round++ {
		type edit struct {
			off       int
			old, repl string
		}
		var edits []edit
		before := map[string][]occ{}
		renamed := map[string][]string{}
		for _, d := range file.Decls {
			fd, ok := d.(*ast.FuncDecl)
			if !ok {
				continue
			}
			key := funcKey(fd)
			want, ok := pinnedLocals[rel+":"+key]
			if !ok || refused[key] {
				continue
			}
			occs, have := resolveFn(fd)
			if len(have) != len(want) || sameStrings(have, want) {
				continue
			}
			before[key], renamed[key] = occs, want
			for _, o := range occs {
				if o.binder >= 0 && want[o.binder] != o.id.Name {
					edits = append(edits, edit{fset.Position(o.id.Pos()).Offset, o.id.Name, want[o.binder]})
				}
			}
		}
		if len(edits) == 0 {
			return src
		}
		sort.Slice(edits, func(i, j int) bool { return edits[i].off < edits[j].off })
		var out []byte
		at := 0
		for _, e := range edits {
			if e.off < at || e.off+len(e.old) > len(src) || string(src[e.off:e.off+len(e.old)]) != e.old {
				return src
			}
			out = append(out, src[at:e.off]...)
			out = append(out, e.repl...)
			at = e.off + len(e.old)
		}
		out = append(out, src[at:]...)
		// capture check: same binder for every occurrence, free identifiers unchanged
		_, file2 := parseResolved(path, out)
		if file2 == nil {
			return src
		}
		bad := false
		for _, d := range file2.Decls {
			fd, ok := d.(*ast.FuncDecl)
			if !ok {
				continue
			}
			key := funcKey(fd)
			b, ok := before[key]
			if !ok {
				continue
			}
			a, names := resolveFn(fd)
			good := len(a) == len(b) && sameStrings(names, renamed[key])
			for i := 0; good && i < len(a); i++ {
				if a[i].binder != b[i].binder || (a[i].binder < 0 && a[i].id.Name != b[i].id.Name) {
					good = false
				}
			}
			if !good {
				refused[key] = true
				bad = true
				fmt.Fprintf(os.Stderr, "xlate: %s: %s: renaming back would capture an identifier; left as written\n", rel, key)
			}
		}
		if !bad {
			return out
		}
	}
	return src
}

// runLocals prints the binder names of every function of the library files (the content of
// pins/locals.json).
func runLocals(args []string) int {
	repo := "/repo"
	for i := 0; i+1 < len(args); i++ {
		if args[i] == "-repo" {
			repo = args[i+1]
		}
	}
	out := map[string][]string{}
	for _, rel := range []string{"evaluate.go", "coerce.go", "bexpr.go", "filter.go", "options.go", "grammar/ast.go", "grammar/grammar.go"} {
		p := filepath.Join(repo, filepath.FromSlash(rel))
		src, err := os.ReadFile(p)
		if err != nil {
			continue
		}
		_, f := parseResolved(p, src)
		if f == nil {
			continue
		}
		for _, d := range f.Decls {
			if fd, ok := d.(*ast.FuncDecl); ok {
				_, names := resolveFn(fd)
				if names == nil {
					names = []string{}
				}
				out[rel+":"+funcKey(fd)] = names
			}
		}
	}
	b, _ := json.MarshalIndent(out, "", " ")
	os.Stdout.Write(append(b, '\n'))
	return 0
}
