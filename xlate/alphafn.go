// Rename-back normalisation of unexported package-level function names.
//
// The extracted facts name functions (`doMatchEqual`, `precompileRegexps`, `evaluateNotPresent`, …).
// Renaming an unexported function, with all its call sites, changes nothing a user can observe.  So
// when the set of unexported package-level functions of a package differs from the pinned set
// (pins/funcs.json) by k functions that disappeared and k that appeared, and there is exactly one
// way to pair them such that each new function's text EQUALS the pinned text of its partner — the
// whole declaration, token for token, with local identifiers numbered by binder, and with the names
// that disappeared / appeared standing for one another — then the new names are renamed back to the
// pinned ones everywhere in the package before anything is extracted.  A function that was renamed
// AND changed finds no partner and is left as it is: the facts about it break, as they must.
package main

import (
	"encoding/json"
	"go/ast"
	"go/scanner"
	"go/token"
	"os"
	"path/filepath"
	"sort"
	"strings"
)

var pinnedFuncs map[string]map[string][]string // package dir ("." / "grammar") ↦ function ↦ normalised tokens

func loadPinnedFuncs() {
	p := os.Getenv("XLATE_FUNCS")
	if p == "" {
		return
	}
	b, err := os.ReadFile(p)
	if err != nil {
		return
	}
	m := map[string]map[string][]string{}
	if json.Unmarshal(b, &m) == nil {
		pinnedFuncs = m
	}
}

// pkgFilesFor lists the source files of the package in dir that the translators read: every
// non-test file without a `verif` build constraint (root package), grammar/ast.go (grammar; the
// generated parser is compared as a table, not as functions).
func pkgFilesFor(repo, dir string) []string {
	if dir == "grammar" {
		return []string{filepath.Join(repo, "grammar", "ast.go")}
	}
	names, _ := filepath.Glob(filepath.Join(repo, "*.go"))
	sort.Strings(names)
	var out []string
	for _, p := range names {
		if strings.HasSuffix(p, "_test.go") {
			continue
		}
		if raw, err := os.ReadFile(p); err != nil || hasVerifConstraint(raw) {
			continue
		}
		out = append(out, p)
	}
	return out
}

// normFuncTokens is the token list of a whole function declaration with every occurrence of a local
// replaced by `$<binder index>` and the function's own name by `$self`.
func normFuncTokens(fd *ast.FuncDecl, fset *token.FileSet, src []byte) []string {
	occs, _ := resolveFn(fd)
	local := map[int]string{}
	for _, o := range occs {
		if o.binder >= 0 {
			local[fset.Position(o.id.Pos()).Offset] = "$" + itoa(o.binder)
		}
	}
	lo, hi := fset.Position(fd.Pos()).Offset, fset.Position(fd.End()).Offset
	if lo < 0 || hi > len(src) || lo > hi {
		return nil
	}
	nameOff := fset.Position(fd.Name.Pos()).Offset
	fs := token.NewFileSet()
	file := fs.AddFile("", fs.Base(), hi-lo)
	var s scanner.Scanner
	s.Init(file, src[lo:hi], func(token.Position, string) {}, 0)
	var toks []string
	for {
		pos, tok, lit := s.Scan()
		if tok == token.EOF {
			break
		}
		if tok == token.COMMENT || (tok == token.SEMICOLON && lit == "\n") {
			continue
		}
		off := lo + file.Offset(pos)
		switch {
		case off == nameOff:
			toks = append(toks, "$self")
		case tok == token.IDENT && local[off] != "":
			toks = append(toks, local[off])
		case lit != "":
			toks = append(toks, lit)
		default:
			toks = append(toks, tok.String())
		}
	}
	return toks
}

func itoa(i int) string {
	if i == 0 {
		return "0"
	}
	var b []byte
	for i > 0 {
		b = append([]byte{byte('0' + i%10)}, b...)
		i /= 10
	}
	return string(b)
}

// currentFuncs reads the unexported package-level functions of a package.
func currentFuncs(repo, dir string) map[string][]string {
	out := map[string][]string{}
	for _, p := range pkgFilesFor(repo, dir) {
		src, err := os.ReadFile(p)
		if err != nil {
			continue
		}
		fset, f := parseResolved(p, src)
		if f == nil {
			continue
		}
		for _, d := range f.Decls {
			fd, ok := d.(*ast.FuncDecl)
			if !ok || fd.Recv != nil || ast.IsExported(fd.Name.Name) || fd.Name.Name == "init" || fd.Name.Name == "_" {
				continue
			}
			out[fd.Name.Name] = normFuncTokens(fd, fset, src)
		}
	}
	return out
}

// wildcard replaces the identifiers in names (when they are not selected fields) by `$fn`.
func wildcard(toks []string, names map[string]bool) []string {
	out := make([]string, len(toks))
	for i, t := range toks {
		if names[t] && (i == 0 || toks[i-1] != ".") {
			out[i] = "$fn"
		} else {
			out[i] = t
		}
	}
	return out
}

var fnRenameCache = map[string]map[string]string{}

// fnRenames computes new name ↦ pinned name for the package in dir (empty when nothing applies).
func fnRenames(repo, dir string) map[string]string {
	key := repo + "\x00" + dir
	if r, ok := fnRenameCache[key]; ok {
		return r
	}
	res := map[string]string{}
	fnRenameCache[key] = res
	pinned := pinnedFuncs[dir]
	if pinned == nil {
		return res
	}
	cur := currentFuncs(repo, dir)
	var missing, added []string
	for n := range pinned {
		if _, ok := cur[n]; !ok {
			missing = append(missing, n)
		}
	}
	for n := range cur {
		if _, ok := pinned[n]; !ok {
			added = append(added, n)
		}
	}
	if len(missing) == 0 || len(added) == 0 || len(missing) > 12 {
		return res
	}
	sort.Strings(missing)
	sort.Strings(added)
	wild := map[string]bool{}
	for _, n := range missing {
		wild[n] = true
	}
	for _, n := range added {
		wild[n] = true
	}
	// pair a new function with the pinned function whose text it has; both directions must be unique
	partner := map[string]string{}
	taken := map[string]int{}
	for _, a := range added {
		var cands []string
		for _, m := range missing {
			if sameStrings(wildcard(cur[a], wild), wildcard(pinned[m], wild)) {
				cands = append(cands, m)
			}
		}
		if len(cands) == 1 {
			partner[a] = cands[0]
			taken[cands[0]]++
		}
	}
	for a, m := range partner {
		if taken[m] == 1 {
			res[a] = m
		}
	}
	return res
}

// applyFnRenames renames every occurrence of a renamed package-level function in one file.
func applyFnRenames(path string, src []byte, ren map[string]string) []byte {
	if len(ren) == 0 {
		return src
	}
	fset, f := parseResolved(path, src)
	if f == nil {
		return src
	}
	skip := map[*ast.Ident]bool{}
	type edit struct {
		off       int
		old, repl string
	}
	var edits []edit
	ast.Inspect(f, func(n ast.Node) bool {
		switch x := n.(type) {
		case *ast.SelectorExpr:
			skip[x.Sel] = true
		case *ast.KeyValueExpr:
			// a struct literal key is a field name; a map literal key that names a function is rare
			// enough to leave alone
			if id, ok := x.Key.(*ast.Ident); ok {
				skip[id] = true
			}
		case *ast.Field:
			for _, nm := range x.Names {
				skip[nm] = true
			}
		case *ast.Ident:
			to, ok := ren[x.Name]
			if !ok || skip[x] {
				return true
			}
			if x.Obj != nil && x.Obj.Kind != ast.Fun {
				return true // a local of the same name
			}
			edits = append(edits, edit{fset.Position(x.Pos()).Offset, x.Name, to})
		}
		return true
	})
	if len(edits) == 0 {
		return src
	}
	sort.Slice(edits, func(i, j int) bool { return edits[i].off < edits[j].off })
	var out []byte
	at := 0
	for _, e := range edits {
		if e.off < at || e.off+len(e.old) > len(src) || string(src[e.off:e.off+len(e.old)]) != e.old {
			return src
		}
		out = append(out, src[at:e.off]...)
		out = append(out, e.repl...)
		at = e.off + len(e.old)
	}
	return append(out, src[at:]...)
}

// runFuncs prints the content of pins/funcs.json.
func runFuncs(args []string) int {
	repo := "/repo"
	for i := 0; i+1 < len(args); i++ {
		if args[i] == "-repo" {
			repo = args[i+1]
		}
	}
	out := map[string]map[string][]string{".": currentFuncs(repo, "."), "grammar": currentFuncs(repo, "grammar")}
	b, _ := json.Marshal(out)
	os.Stdout.Write(append(b, '\n'))
	return 0
}
