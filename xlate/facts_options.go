package main

// facts_options.go: T5, the `options` subcommand.
//
// Reads options.go, bexpr.go, filter.go and grammar/grammar.go and emits
// BexprGen/Options.lean: which option constructor sets which field, the
// defaults, how CreateEvaluator plumbs the parsed options into the Evaluator
// and the parser, and the token lists of the parser engine functions that
// implement the expression budget.

import (
	"go/ast"
	"go/parser"
	"go/token"
	"strings"
)

var optionsSchema = []defSpec{
	{"setters", "List (String × List String)"},
	{"setterBodies", "List (String × List String)"},
	{"defaults", "List (String × String)"},
	{"optionsFields", "List (String × String)"},
	{"getOptsBody", "List String"},
	{"getOptsSkipsNil", "Bool"},
	{"createPlumbing", "List (String × String)"},
	{"createForwardsMax", "List String"},
	{"createParseCall", "List String"},
	{"createErrCheckBeforeAssert", "Bool"},
	{"newParserZeroMeansMax", "Bool"},
	{"parseExprBudget", "List String"},
	{"maxExpressionsOption", "List String"},
	{"parseRecover", "List String"},
	{"engineFuncTokens", "List (String × List String)"},
	{"filterExecuteBody", "List String"},
	{"createFilterBody", "List String"},
}

var optionsCmd = &factsCmd{
	name:    "options",
	outFile: "Options.lean",
	ns:      "BexprGen.Options",
	schema:  optionsSchema,
	load:    loadFixed("options.go", "bexpr.go", "filter.go", "grammar/grammar.go"),
	extract: extractOptions,
}

func runOptions(args []string) int { return optionsCmd.run(args) }

func extractOptions(files map[string]*srcFile) (map[string]lval, []string) {
	op, bx, fl, gr := files["options.go"], files["bexpr.go"], files["filter.go"], files["grammar/grammar.go"]
	vals := map[string]lval{}

	// a, b. setters, setterBodies
	var setters, bodies []keyedToks
	for _, f := range funcsOf(op) {
		if f.fd.Recv != nil || !strings.HasPrefix(f.fd.Name.Name, "With") {
			continue
		}
		s, b := readSetter(&f)
		setters = append(setters, keyedToks{f.key, s})
		bodies = append(bodies, keyedToks{f.key, b})
	}
	vals["setters"] = lKeyed(setters)
	vals["setterBodies"] = lKeyed(bodies)

	// c. defaults (of the function getOpts starts from, whatever its name), optionsFields
	getOpts := findFn("getOpts", op)
	skipsNil, defaultsFn := getOptsShape(getOpts)
	fields, haveFields := structFields(op, "options")
	switch {
	case getOpts == nil:
		vals["defaults"] = lPairs([][2]string{{unk("func getOpts not found"), unk("missing")}})
	case defaultsFn == "":
		vals["defaults"] = lPairs([][2]string{{unk("getOpts does not start with `opts := F()`"), unk("missing")}})
	default:
		vals["defaults"] = lPairs(readDefaults(defaultsFn, findFn(defaultsFn, op, bx, fl), fields))
	}
	if haveFields {
		vals["optionsFields"] = lPairs(fields)
	} else {
		vals["optionsFields"] = lPairs([][2]string{{unk("struct type options not found"), unk("missing")}})
	}

	// d. getOpts
	vals["getOptsBody"] = lStrs(fnBodyToks("getOpts", op))
	vals["getOptsSkipsNil"] = lBool(skipsNil)

	// e, f. CreateEvaluator
	ce := findFn("CreateEvaluator", bx)
	vals["createPlumbing"] = lPairs(createPlumbing(ce))
	fwd, call, errFirst := createParse(ce)
	vals["createForwardsMax"] = lStrs(fwd)
	vals["createParseCall"] = lStrs(call)
	vals["createErrCheckBeforeAssert"] = lBool(errFirst)

	// g. grammar.go
	vals["newParserZeroMeansMax"] = lBool(newParserZeroMeansMax(findFn("newParser", gr)))
	budget := []string{unk("func parser.parseExpr not found or has fewer than two statements")}
	if f := findFn("parser.parseExpr", gr); f != nil && f.fd.Body != nil && len(f.fd.Body.List) >= 2 {
		budget = f.sf.stmtsToks(f.fd.Body.List[:2])
	}
	vals["parseExprBudget"] = lStrs(budget)
	vals["maxExpressionsOption"] = lStrs(fnBodyToks("MaxExpressions", gr))
	recov := []string{}
	if f := findFn("parser.parse", gr); f != nil && f.fd.Body != nil {
		for _, st := range f.fd.Body.List {
			if is, ok := st.(*ast.IfStmt); ok && is.Init == nil && sameStrings(f.sf.toks(is.Cond), []string{"p", ".", "recover"}) {
				if len(recov) > 0 {
					recov = append(recov, unk("second `if p.recover` statement"))
				}
				recov = append(recov, f.sf.toks(is)...)
			}
		}
	} else {
		recov = []string{unk("method parser.parse not found")}
	}
	vals["parseRecover"] = lStrs(recov)

	wanted := map[string]bool{
		"parser.read": true, "parser.restore": true, "parser.sliceFrom": true, "parser.pushV": true, "parser.popV": true,
		"parser.addErr": true, "parser.addErrAt": true, "newParser": true, "errList.err": true, "errList.dedupe": true,
	}
	var engine []keyedToks
	for _, f := range funcsOf(gr) {
		isParse := recvBase(f.fd) == "parser" && strings.HasPrefix(f.fd.Name.Name, "parse")
		if !isParse && !wanted[f.key] {
			continue
		}
		engine = append(engine, keyedToks{f.key, f.sf.bodyToks(f.fd.Body)})
		delete(wanted, f.key)
	}
	for _, k := range []string{"parser.read", "parser.restore", "parser.sliceFrom", "parser.pushV", "parser.popV",
		"parser.addErr", "parser.addErrAt", "newParser", "errList.err", "errList.dedupe"} {
		if wanted[k] {
			engine = append(engine, keyedToks{k, []string{unk("function " + k + " not found")}})
		}
	}
	vals["engineFuncTokens"] = lKeyed(engine)

	// h.
	vals["filterExecuteBody"] = lStrs(fnBodyToks("Filter.Execute", fl))
	vals["createFilterBody"] = lStrs(fnBodyToks("CreateFilter", fl))
	return vals, nil
}

// readSetter reads `func WithX(...) Option { return func(o *options) { ... } }`.
func readSetter(f *fnDecl) (fieldsSet, body []string) {
	sf := f.sf
	if f.fd.Body == nil {
		return []string{unk("no body")}, []string{unk("no body")}
	}
	r := singleReturn(f.fd.Body.List, 1)
	var lit *ast.FuncLit
	if r != nil {
		lit, _ = r.Results[0].(*ast.FuncLit)
	}
	if lit == nil {
		t := unk(sf.stmtsOneLine(f.fd.Body.List))
		return []string{t}, []string{t}
	}
	body = sf.bodyToks(lit.Body)
	fieldsSet = []string{}
	ps := paramNames(lit.Type)
	if len(ps) != 1 || ps[0] == "_" {
		return append(fieldsSet, unk("closure signature "+sf.oneLine(lit.Type))), body
	}
	o := ps[0]
	// field recognises `o.<field>`.
	field := func(e ast.Expr) (string, bool) {
		s, ok := unparen(e).(*ast.SelectorExpr)
		if !ok || !isIdent(s.X, o) {
			return "", false
		}
		return s.Sel.Name, true
	}
	for _, st := range lit.Body.List {
		as, ok := st.(*ast.AssignStmt)
		if !ok || as.Tok != token.ASSIGN || len(as.Lhs) != len(as.Rhs) {
			fieldsSet = append(fieldsSet, unk(sf.oneLine(st)))
			continue
		}
		var names []string
		good := true
		for i, l := range as.Lhs {
			name, ok := field(l)
			if !ok {
				good = false
				break
			}
			if call, isCall := unparen(as.Rhs[i]).(*ast.CallExpr); isCall && isIdent(call.Fun, "append") {
				if len(call.Args) == 0 {
					good = false
					break
				}
				if first, ok := field(call.Args[0]); ok && first == name {
					name += "+append"
				} else {
					good = false
					break
				}
			}
			names = append(names, name)
		}
		if !good {
			fieldsSet = append(fieldsSet, unk(sf.oneLine(st)))
			continue
		}
		fieldsSet = append(fieldsSet, names...)
	}
	return fieldsSet, body
}

// zeroValueText is the text of the zero value of a field type, as far as the
// type expression alone tells it: "0" for the integer types, "\"\"" for string,
// "false" for bool, "nil" for pointers, functions, slices, maps, channels and
// interfaces.  For any other type (a named type that is not predeclared) it is
// "zero(T)".
func zeroValueText(typ string, e ast.Expr) string {
	switch t := e.(type) {
	case *ast.StarExpr, *ast.FuncType, *ast.MapType, *ast.ChanType, *ast.InterfaceType:
		return "nil"
	case *ast.ArrayType:
		if t.Len == nil {
			return "nil"
		}
	case *ast.Ident:
		switch t.Name {
		case "int", "int8", "int16", "int32", "int64", "uint", "uint8", "uint16", "uint32", "uint64", "uintptr", "byte", "rune":
			return "0"
		case "string":
			return "\"\""
		case "bool":
			return "false"
		case "any", "error":
			return "nil"
		}
	}
	return "zero(" + typ + ")"
}

// readDefaults reads `return options{ k: v, ... }` of the defaults function and
// lists (field, value text) for EVERY field of struct options, in the order of
// the struct: the value given by the literal, or else the zero value of the
// field's type (zeroValueText), which is what Go puts there.  So a literal that
// spells out a zero value and one that leaves the field out give the same table.
func readDefaults(name string, f *fnDecl, fields [][2]string) [][2]string {
	if f == nil || f.fd.Body == nil {
		return [][2]string{{unk("func " + name + " not found"), unk("missing")}}
	}
	sf := f.sf
	r := singleReturn(f.fd.Body.List, 1)
	var cl *ast.CompositeLit
	if r != nil {
		cl, _ = r.Results[0].(*ast.CompositeLit)
	}
	if cl == nil || !isIdent(cl.Type, "options") {
		t := unk(sf.stmtsOneLine(f.fd.Body.List))
		return [][2]string{{t, t}}
	}
	given := keyValues(sf, cl)
	var out [][2]string
	used := make([]bool, len(given))
	for _, fld := range fields {
		found := false
		for i, kv := range given {
			if kv[0] == fld[0] {
				out = append(out, kv)
				used[i], found = true, true
			}
		}
		if !found {
			typ, err := parser.ParseExpr(fld[1]) // structFields gives the type as text
			if err != nil {
				out = append(out, [2]string{fld[0], unk("type " + fld[1])})
				continue
			}
			out = append(out, [2]string{fld[0], zeroValueText(fld[1], typ)})
		}
	}
	// anything that is not `field: value` for a field of the struct (positional
	// elements, unknown keys) is listed as it is
	for i, kv := range given {
		if !used[i] {
			out = append(out, kv)
		}
	}
	return out
}

// keyValues lists (key, value text) of a struct literal.
func keyValues(sf *srcFile, cl *ast.CompositeLit) [][2]string {
	var out [][2]string
	for _, el := range cl.Elts {
		kv, ok := el.(*ast.KeyValueExpr)
		if !ok {
			out = append(out, [2]string{unk("positional element"), unk(sf.oneLine(el))})
			continue
		}
		id, ok := kv.Key.(*ast.Ident)
		if !ok {
			out = append(out, [2]string{unk(sf.oneLine(kv.Key)), sf.oneLine(kv.Value)})
			continue
		}
		out = append(out, [2]string{id.Name, sf.oneLine(kv.Value)})
	}
	return out
}

// getOptsShape reads getOpts.  skipsNil: its body is exactly
//
//	opts := F()
//	for _, o := range <the variadic parameter> { if o != nil { o(&opts) } }
//	return opts
//
// where the loop body may also be written `if o == nil { continue }; o(&opts)`.
// defaultsFn is F, the function the options start from ("" if the first
// statement is not `opts := F()`).
func getOptsShape(f *fnDecl) (skipsNil bool, defaultsFn string) {
	if f == nil || f.fd.Body == nil || len(f.fd.Body.List) == 0 {
		return false, ""
	}
	sf := f.sf
	stmts := f.fd.Body.List
	// opts := F()
	as, ok := stmts[0].(*ast.AssignStmt)
	if !ok || as.Tok != token.DEFINE || len(as.Lhs) != 1 || len(as.Rhs) != 1 {
		return false, ""
	}
	v, isID := as.Lhs[0].(*ast.Ident)
	call, isCall := as.Rhs[0].(*ast.CallExpr)
	if !isID || v.Name == "_" || !isCall || len(call.Args) != 0 {
		return false, ""
	}
	fn, isID := call.Fun.(*ast.Ident)
	if !isID {
		return false, ""
	}
	defaultsFn = fn.Name
	if len(stmts) != 3 {
		return false, defaultsFn
	}
	// for _, o := range opt { ... }
	r, ok := stmts[1].(*ast.RangeStmt)
	if !ok {
		return false, defaultsFn
	}
	o, ok := r.Value.(*ast.Ident)
	if !ok || r.Tok != token.DEFINE || !isIdent(r.Key, "_") || o.Name == "_" || o.Name == v.Name {
		return false, defaultsFn
	}
	ps := paramNames(f.fd.Type)
	if len(ps) != 1 || !isIdent(r.X, ps[0]) || ps[0] == o.Name || ps[0] == v.Name {
		return false, defaultsFn
	}
	body := sf.bodyToks(r.Body)
	guarded := []string{"if", o.Name, "!=", "nil", "{", o.Name, "(", "&", v.Name, ")", "}"}
	skipping := []string{"if", o.Name, "==", "nil", "{", "continue", "}", o.Name, "(", "&", v.Name, ")"}
	if !sameStrings(body, guarded) && !sameStrings(body, skipping) {
		return false, defaultsFn
	}
	// return opts
	return sameStrings(sf.toks(stmts[2]), []string{"return", v.Name}), defaultsFn
}

// createPlumbing lists the key/value pairs of the first `&Evaluator{...}` in
// CreateEvaluator.
func createPlumbing(f *fnDecl) [][2]string {
	if f == nil || f.fd.Body == nil {
		return [][2]string{{unk("func CreateEvaluator not found"), unk("missing")}}
	}
	var lits []*ast.CompositeLit
	ast.Inspect(f.fd.Body, func(n ast.Node) bool {
		if cl, ok := n.(*ast.CompositeLit); ok && isIdent(cl.Type, "Evaluator") {
			lits = append(lits, cl)
		}
		return true
	})
	if len(lits) == 0 {
		return [][2]string{{unk("no Evaluator{...} literal in CreateEvaluator"), unk("missing")}}
	}
	out := keyValues(f.sf, lits[0])
	for _, extra := range lits[1:] {
		out = append(out, [2]string{unk("further Evaluator literal"), unk(f.sf.oneLine(extra))})
	}
	return out
}

// createParse reads the parser plumbing of CreateEvaluator.
func createParse(f *fnDecl) (forward, parseCall []string, errCheckFirst bool) {
	forward, parseCall = []string{}, []string{}
	if f == nil || f.fd.Body == nil {
		return []string{unk("func CreateEvaluator not found")}, []string{unk("func CreateEvaluator not found")}, false
	}
	sf := f.sf
	var call *ast.CallExpr
	var assert *ast.TypeAssertExpr
	var errCheck ast.Stmt
	nFwd := 0
	ast.Inspect(f.fd.Body, func(n ast.Node) bool {
		switch x := n.(type) {
		case *ast.IfStmt:
			if x.Init == nil && sameStrings(sf.toks(x.Cond), []string{"parsedOpts", ".", "withMaxExpressions", "!=", "0"}) {
				if nFwd > 0 {
					forward = append(forward, unk("second `if parsedOpts.withMaxExpressions != 0` statement"))
				}
				nFwd++
				forward = append(forward, sf.toks(x)...)
			}
			if errCheck == nil && sameStrings(sf.toks(x), []string{"if", "err", "!=", "nil", "{", "return", "nil", ",", "err", "}"}) {
				errCheck = x
			}
		case *ast.CallExpr:
			if p, name, ok := pkgSel(x.Fun); ok && p == "grammar" && name == "Parse" {
				if call == nil {
					call = x
					parseCall = sf.toks(x)
				} else {
					parseCall = append(parseCall, unk("second grammar.Parse call: "+sf.oneLine(x)))
				}
			}
		case *ast.TypeAssertExpr:
			if assert == nil && x.Type != nil && sameStrings(sf.toks(x.Type), []string{"grammar", ".", "Expression"}) {
				assert = x
			}
		}
		return true
	})
	if call == nil {
		parseCall = []string{unk("no grammar.Parse call in CreateEvaluator")}
	}
	// The error check must follow the Parse call and precede the first
	// .(grammar.Expression) assertion; both must exist.
	errCheckFirst = call != nil && assert != nil && errCheck != nil &&
		call.End() <= errCheck.Pos() && errCheck.End() <= assert.Pos()
	return forward, parseCall, errCheckFirst
}

// newParserZeroMeansMax: newParser has, among its top-level statements, exactly
// one statement mentioning maxExprCnt and it is
// `if p.maxExprCnt == 0 { p.maxExprCnt = math.MaxUint64 }`.
func newParserZeroMeansMax(f *fnDecl) bool {
	if f == nil || f.fd.Body == nil {
		return false
	}
	sf := f.sf
	want := []string{"if", "p", ".", "maxExprCnt", "==", "0", "{", "p", ".", "maxExprCnt", "=", "math", ".", "MaxUint64", "}"}
	exact, mentions := 0, 0
	for _, st := range f.fd.Body.List {
		toks := sf.toks(st)
		for _, t := range toks {
			if t == "maxExprCnt" {
				mentions++
				break
			}
		}
		if sameStrings(toks, want) {
			exact++
		}
	}
	return exact == 1 && mentions == 1
}
