package main

// facts_options.go: T5, the `options` subcommand.
//
// Reads options.go, bexpr.go, filter.go and grammar/grammar.go and emits
// BexprGen/Options.lean: which option constructor sets which field, the
// defaults, how CreateEvaluator plumbs the parsed options into the Evaluator
// and the parser, and the token lists of the parser engine functions that
// implement the expression budget.

import (
	"fmt"
	"go/ast"
	"go/parser"
	"go/token"
	"strings"
)

var optionsSchema = []defSpec{
	{"setters", "List (String × List String)"},
	{"setterBodies", "List (String × List String)"},
	{"defaults", "List (String × String)"},
	{"optionsFields", "List (String × String)"},
	{"getOptsBody", "List String"},
	{"getOptsSkipsNil", "Bool"},
	{"createPlumbing", "List (String × String)"},
	{"createForwardsMax", "List String"},
	{"createParseCall", "List String"},
	{"createErrCheckBeforeAssert", "Bool"},
	{"newParserZeroMeansMax", "Bool"},
	{"parseExprBudget", "List String"},
	{"maxExpressionsOption", "List String"},
	{"parseRecover", "List String"},
	{"engineFuncTokens", "List (String × List String)"},
	{"filterExecuteBody", "List String"},
	{"createFilterBody", "List String"},
}

var optionsCmd = &factsCmd{
	name:    "options",
	outFile: "Options.lean",
	ns:      "BexprGen.Options",
	schema:  optionsSchema,
	load:    loadFixedPlusRoot("options.go", "bexpr.go", "filter.go", "grammar/grammar.go"),
	extract: extractOptions,
}

func runOptions(args []string) int { return optionsCmd.run(args) }

func extractOptions(files map[string]*srcFile) (map[string]lval, []string) {
	op, fl, gr := files["options.go"], files["filter.go"], files["grammar/grammar.go"]
	vals := map[string]lval{}

	// a, b. setters, setterBodies
	var setters, bodies []keyedToks
	for _, f := range funcsOf(op) {
		if f.fd.Recv != nil || !strings.HasPrefix(f.fd.Name.Name, "With") {
			continue
		}
		s, b := readSetter(&f)
		setters = append(setters, keyedToks{f.key, s})
		bodies = append(bodies, keyedToks{f.key, b})
	}
	vals["setters"] = lKeyed(setters)
	vals["setterBodies"] = lKeyed(bodies)

	// c. defaults (of the function getOpts starts from, whatever its name), optionsFields
	root := rootFiles(files, "options.go", "bexpr.go", "filter.go")
	getOpts := findFn("getOpts", root...)
	skipsNil, defaultsFn, defaultsLit := getOptsShape(getOpts)
	fields, haveFields := structFields(op, "options")
	switch {
	case getOpts == nil:
		vals["defaults"] = lPairs([][2]string{{unk("func getOpts not found"), unk("missing")}})
	case defaultsLit != nil:
		// getOpts starts from a literal: `opts := options{...}`
		vals["defaults"] = lPairs(defaultsOf(getOpts.sf, defaultsLit, fields))
	case defaultsFn == "":
		vals["defaults"] = lPairs([][2]string{{unk("getOpts does not start with `opts := F()` or `opts := options{...}`"), unk("missing")}})
	default:
		vals["defaults"] = lPairs(readDefaults(defaultsFn, findFn(defaultsFn, root...), fields))
	}
	if haveFields {
		vals["optionsFields"] = lPairs(fields)
	} else {
		vals["optionsFields"] = lPairs([][2]string{{unk("struct type options not found"), unk("missing")}})
	}

	// d. getOpts
	vals["getOptsBody"] = lStrs(fnBodyToks("getOpts", op))
	vals["getOptsSkipsNil"] = lBool(skipsNil)

	// e, f. CreateEvaluator
	ce := findFn("CreateEvaluator", root...)
	vals["createPlumbing"] = lPairs(createPlumbing(ce))
	fwd, call, errFirst := createParse(ce, root)
	vals["createForwardsMax"] = lStrs(fwd)
	vals["createParseCall"] = lStrs(call)
	vals["createErrCheckBeforeAssert"] = lBool(errFirst)

	// g. grammar.go
	vals["newParserZeroMeansMax"] = lBool(newParserZeroMeansMax(findFn("newParser", gr)))
	budget := []string{unk("func parser.parseExpr not found or has fewer than two statements")}
	if f := findFn("parser.parseExpr", gr); f != nil && f.fd.Body != nil && len(f.fd.Body.List) >= 2 {
		budget = f.sf.stmtsToks(f.fd.Body.List[:2])
	}
	vals["parseExprBudget"] = lStrs(budget)
	vals["maxExpressionsOption"] = lStrs(fnBodyToks("MaxExpressions", gr))
	recov := []string{}
	if f := findFn("parser.parse", gr); f != nil && f.fd.Body != nil {
		for _, st := range f.fd.Body.List {
			if is, ok := st.(*ast.IfStmt); ok && is.Init == nil && sameStrings(f.sf.toks(is.Cond), []string{"p", ".", "recover"}) {
				if len(recov) > 0 {
					recov = append(recov, unk("second `if p.recover` statement"))
				}
				recov = append(recov, f.sf.toks(is)...)
			}
		}
	} else {
		recov = []string{unk("method parser.parse not found")}
	}
	vals["parseRecover"] = lStrs(recov)

	wanted := map[string]bool{
		"parser.read": true, "parser.restore": true, "parser.sliceFrom": true, "parser.pushV": true, "parser.popV": true,
		"parser.addErr": true, "parser.addErrAt": true, "newParser": true, "errList.err": true, "errList.dedupe": true,
	}
	var engine []keyedToks
	for _, f := range funcsOf(gr) {
		isParse := recvBase(f.fd) == "parser" && strings.HasPrefix(f.fd.Name.Name, "parse")
		if !isParse && !wanted[f.key] {
			continue
		}
		engine = append(engine, keyedToks{f.key, f.sf.bodyToks(f.fd.Body)})
		delete(wanted, f.key)
	}
	for _, k := range []string{"parser.read", "parser.restore", "parser.sliceFrom", "parser.pushV", "parser.popV",
		"parser.addErr", "parser.addErrAt", "newParser", "errList.err", "errList.dedupe"} {
		if wanted[k] {
			engine = append(engine, keyedToks{k, []string{unk("function " + k + " not found")}})
		}
	}
	vals["engineFuncTokens"] = lKeyed(engine)

	// h.
	vals["filterExecuteBody"] = lStrs(fnBodyToks("Filter.Execute", fl))
	vals["createFilterBody"] = lStrs(fnBodyToks("CreateFilter", fl))
	return vals, nil
}

// readSetter reads `func WithX(...) Option { return func(o *options) { ... } }`.
func readSetter(f *fnDecl) (fieldsSet, body []string) {
	sf := f.sf
	if f.fd.Body == nil {
		return []string{unk("no body")}, []string{unk("no body")}
	}
	r := singleReturn(f.fd.Body.List, 1)
	var lit *ast.FuncLit
	if r != nil {
		lit, _ = r.Results[0].(*ast.FuncLit)
	}
	if lit == nil {
		t := unk(sf.stmtsOneLine(f.fd.Body.List))
		return []string{t}, []string{t}
	}
	body = sf.bodyToks(lit.Body)
	fieldsSet = []string{}
	ps := paramNames(lit.Type)
	if len(ps) != 1 || ps[0] == "_" {
		return append(fieldsSet, unk("closure signature "+sf.oneLine(lit.Type))), body
	}
	o := ps[0]
	// field recognises `o.<field>`.
	field := func(e ast.Expr) (string, bool) {
		s, ok := unparen(e).(*ast.SelectorExpr)
		if !ok || !isIdent(s.X, o) {
			return "", false
		}
		return s.Sel.Name, true
	}
	for _, st := range lit.Body.List {
		as, ok := st.(*ast.AssignStmt)
		// `tmp := T{...}` — a temporary built from a literal that does not mention o — sets nothing
		if ok && as.Tok == token.DEFINE && len(as.Lhs) == 1 && len(as.Rhs) == 1 {
			if _, isLit := as.Rhs[0].(*ast.CompositeLit); isLit && !mentions(as.Rhs[0], o) {
				if id, isID := as.Lhs[0].(*ast.Ident); isID && id.Name != o {
					continue
				}
			}
		}
		if !ok || as.Tok != token.ASSIGN || len(as.Lhs) != len(as.Rhs) {
			fieldsSet = append(fieldsSet, unk(sf.oneLine(st)))
			continue
		}
		var names []string
		good := true
		for i, l := range as.Lhs {
			name, ok := field(l)
			if !ok {
				good = false
				break
			}
			if call, isCall := unparen(as.Rhs[i]).(*ast.CallExpr); isCall && isIdent(call.Fun, "append") {
				if len(call.Args) == 0 {
					good = false
					break
				}
				if first, ok := field(call.Args[0]); ok && first == name {
					name += "+append"
				} else {
					good = false
					break
				}
			}
			names = append(names, name)
		}
		if !good {
			fieldsSet = append(fieldsSet, unk(sf.oneLine(st)))
			continue
		}
		fieldsSet = append(fieldsSet, names...)
	}
	return fieldsSet, body
}

// mentions reports whether the identifier name occurs in e.
func mentions(e ast.Node, name string) bool {
	found := false
	ast.Inspect(e, func(n ast.Node) bool {
		if id, ok := n.(*ast.Ident); ok && id.Name == name {
			found = true
		}
		return !found
	})
	return found
}

// zeroValueText is the text of the zero value of a field type, as far as the
// type expression alone tells it: "0" for the integer types, "\"\"" for string,
// "false" for bool, "nil" for pointers, functions, slices, maps, channels and
// interfaces.  For any other type (a named type that is not predeclared) it is
// "zero(T)".
func zeroValueText(typ string, e ast.Expr) string {
	switch t := e.(type) {
	case *ast.StarExpr, *ast.FuncType, *ast.MapType, *ast.ChanType, *ast.InterfaceType:
		return "nil"
	case *ast.ArrayType:
		if t.Len == nil {
			return "nil"
		}
	case *ast.Ident:
		switch t.Name {
		case "int", "int8", "int16", "int32", "int64", "uint", "uint8", "uint16", "uint32", "uint64", "uintptr", "byte", "rune":
			return "0"
		case "string":
			return "\"\""
		case "bool":
			return "false"
		case "any", "error":
			return "nil"
		}
	}
	return "zero(" + typ + ")"
}

// readDefaults reads `return options{ k: v, ... }` of the defaults function and
// lists (field, value text) for EVERY field of struct options, in the order of
// the struct: the value given by the literal, or else the zero value of the
// field's type (zeroValueText), which is what Go puts there.  So a literal that
// spells out a zero value and one that leaves the field out give the same table.
func readDefaults(name string, f *fnDecl, fields [][2]string) [][2]string {
	if f == nil || f.fd.Body == nil {
		return [][2]string{{unk("func " + name + " not found"), unk("missing")}}
	}
	sf := f.sf
	r := singleReturn(f.fd.Body.List, 1)
	var cl *ast.CompositeLit
	if r != nil {
		cl, _ = r.Results[0].(*ast.CompositeLit)
	}
	if cl == nil || !isIdent(cl.Type, "options") {
		t := unk(sf.stmtsOneLine(f.fd.Body.List))
		return [][2]string{{t, t}}
	}
	return defaultsOf(sf, cl, fields)
}

// defaultsOf lists the value every field of `options` has in the literal the options start from
// (omitted fields: their zero value; a value that names a package-level constant: the constant's
// own value).
func defaultsOf(sf *srcFile, cl *ast.CompositeLit, fields [][2]string) [][2]string {
	given := keyValues(sf, cl)
	for i, el := range cl.Elts {
		if kv, ok := el.(*ast.KeyValueExpr); ok && i < len(given) {
			if id, ok := kv.Value.(*ast.Ident); ok {
				if v, ok := pkgLevelValue(sf, id.Name).(*ast.BasicLit); ok {
					given[i][1] = v.Value
				}
			}
		}
	}
	var out [][2]string
	used := make([]bool, len(given))
	for _, fld := range fields {
		found := false
		for i, kv := range given {
			if kv[0] == fld[0] {
				out = append(out, kv)
				used[i], found = true, true
			}
		}
		if !found {
			typ, err := parser.ParseExpr(fld[1]) // structFields gives the type as text
			if err != nil {
				out = append(out, [2]string{fld[0], unk("type " + fld[1])})
				continue
			}
			out = append(out, [2]string{fld[0], zeroValueText(fld[1], typ)})
		}
	}
	// anything that is not `field: value` for a field of the struct (positional
	// elements, unknown keys) is listed as it is
	for i, kv := range given {
		if !used[i] {
			out = append(out, kv)
		}
	}
	return out
}

// keyValues lists (key, value text) of a struct literal.
func keyValues(sf *srcFile, cl *ast.CompositeLit) [][2]string {
	var out [][2]string
	for _, el := range cl.Elts {
		kv, ok := el.(*ast.KeyValueExpr)
		if !ok {
			out = append(out, [2]string{unk("positional element"), unk(sf.oneLine(el))})
			continue
		}
		id, ok := kv.Key.(*ast.Ident)
		if !ok {
			out = append(out, [2]string{unk(sf.oneLine(kv.Key)), sf.oneLine(kv.Value)})
			continue
		}
		out = append(out, [2]string{id.Name, sf.oneLine(kv.Value)})
	}
	return out
}

// getOptsShape reads getOpts.  skipsNil: its body is exactly
//
//	opts := F()
//	for _, o := range <the variadic parameter> { if o != nil { o(&opts) } }
//	return opts
//
// where the loop body may also be written `if o == nil { continue }; o(&opts)`.
// defaultsFn is F, the function the options start from ("" if the first
// statement is not `opts := F()`).
func getOptsShape(f *fnDecl) (skipsNil bool, defaultsFn string, defaultsLit *ast.CompositeLit) {
	if f == nil || f.fd.Body == nil || len(f.fd.Body.List) == 0 {
		return false, "", nil
	}
	sf := f.sf
	stmts := f.fd.Body.List
	// opts := F()   or   opts := options{...}
	as, ok := stmts[0].(*ast.AssignStmt)
	if !ok || as.Tok != token.DEFINE || len(as.Lhs) != 1 || len(as.Rhs) != 1 {
		return false, "", nil
	}
	v, isID := as.Lhs[0].(*ast.Ident)
	if !isID || v.Name == "_" {
		return false, "", nil
	}
	switch rhs := as.Rhs[0].(type) {
	case *ast.CallExpr:
		fn, isID := rhs.Fun.(*ast.Ident)
		if !isID || len(rhs.Args) != 0 {
			return false, "", nil
		}
		defaultsFn = fn.Name
	case *ast.CompositeLit:
		if !isIdent(rhs.Type, "options") {
			return false, "", nil
		}
		defaultsLit = rhs
	default:
		return false, "", nil
	}
	if len(stmts) != 3 {
		return false, defaultsFn, defaultsLit
	}
	// for _, o := range opt { ... }
	r, ok := stmts[1].(*ast.RangeStmt)
	if !ok {
		return false, defaultsFn, defaultsLit
	}
	o, ok := r.Value.(*ast.Ident)
	if !ok || r.Tok != token.DEFINE || !isIdent(r.Key, "_") || o.Name == "_" || o.Name == v.Name {
		return false, defaultsFn, defaultsLit
	}
	ps := paramNames(f.fd.Type)
	if len(ps) != 1 || !isIdent(r.X, ps[0]) || ps[0] == o.Name || ps[0] == v.Name {
		return false, defaultsFn, defaultsLit
	}
	body := sf.bodyToks(r.Body)
	guarded := []string{"if", o.Name, "!=", "nil", "{", o.Name, "(", "&", v.Name, ")", "}"}
	skipping := []string{"if", o.Name, "==", "nil", "{", "continue", "}", o.Name, "(", "&", v.Name, ")"}
	if !sameStrings(body, guarded) && !sameStrings(body, skipping) {
		return false, defaultsFn, defaultsLit
	}
	// return opts
	return sameStrings(sf.toks(stmts[2]), []string{"return", v.Name}), defaultsFn, defaultsLit
}

// createNames finds the roles of the locals of CreateEvaluator:
//
//	cfg      `cfg := getOpts(<variadic parameter>...)`
//	parsed   `parsed, err := grammar.Parse(...)`
//	tree     `tree := parsed.(grammar.Expression)`        ("" when the assertion is used in place)
//	expr     the first parameter (the expression string)
type createNames struct {
	cfg, parsed, errv, tree, expr string
	parse                         *ast.CallExpr
}

func readCreateNames(f *fnDecl) createNames {
	var n createNames
	ps := paramNames(f.fd.Type)
	if len(ps) != 2 {
		return n
	}
	n.expr = ps[0]
	ast.Inspect(f.fd.Body, func(nd ast.Node) bool {
		as, ok := nd.(*ast.AssignStmt)
		if !ok || as.Tok != token.DEFINE || len(as.Rhs) != 1 {
			return true
		}
		switch rhs := as.Rhs[0].(type) {
		case *ast.CallExpr:
			if isIdent(rhs.Fun, "getOpts") && rhs.Ellipsis.IsValid() && len(rhs.Args) == 1 && isIdent(rhs.Args[0], ps[1]) && len(as.Lhs) == 1 {
				if id, ok := as.Lhs[0].(*ast.Ident); ok && n.cfg == "" {
					n.cfg = id.Name
				}
			}
			if p, name, ok := pkgSel(rhs.Fun); ok && p == "grammar" && name == "Parse" && len(as.Lhs) == 2 && n.parse == nil {
				a, ok1 := as.Lhs[0].(*ast.Ident)
				b, ok2 := as.Lhs[1].(*ast.Ident)
				if ok1 && ok2 {
					n.parsed, n.errv, n.parse = a.Name, b.Name, rhs
				}
			}
		case *ast.TypeAssertExpr:
			if len(as.Lhs) == 1 && n.parsed != "" && isIdent(rhs.X, n.parsed) && rhs.Type != nil && sameStrings(f.sf.toks(rhs.Type), []string{"grammar", ".", "Expression"}) {
				if id, ok := as.Lhs[0].(*ast.Ident); ok && n.tree == "" {
					n.tree = id.Name
				}
			}
		}
		return true
	})
	return n
}

// createPlumbing lists the key/value pairs of the first `&Evaluator{...}` in CreateEvaluator, with
// the locals replaced by their roles: `$opts.<field>` for a field of the folded options, `$tree` for
// the parse result asserted to grammar.Expression, `$expression` for the expression parameter.
func createPlumbing(f *fnDecl) [][2]string {
	if f == nil || f.fd.Body == nil {
		return [][2]string{{unk("func CreateEvaluator not found"), unk("missing")}}
	}
	var lits []*ast.CompositeLit
	ast.Inspect(f.fd.Body, func(n ast.Node) bool {
		if cl, ok := n.(*ast.CompositeLit); ok && isIdent(cl.Type, "Evaluator") {
			lits = append(lits, cl)
		}
		return true
	})
	if len(lits) == 0 {
		return [][2]string{{unk("no Evaluator{...} literal in CreateEvaluator"), unk("missing")}}
	}
	names := readCreateNames(f)
	out := keyValues(f.sf, lits[0])
	for i, el := range lits[0].Elts {
		kv, ok := el.(*ast.KeyValueExpr)
		if !ok || i >= len(out) {
			continue
		}
		switch v := unparen(kv.Value).(type) {
		case *ast.Ident:
			switch {
			case names.tree != "" && v.Name == names.tree:
				out[i][1] = "$tree"
			case names.expr != "" && v.Name == names.expr:
				out[i][1] = "$expression"
			}
		case *ast.SelectorExpr:
			if names.cfg != "" && isIdent(v.X, names.cfg) {
				out[i][1] = "$opts." + v.Sel.Name
			}
		case *ast.TypeAssertExpr:
			if names.parsed != "" && isIdent(v.X, names.parsed) && v.Type != nil && sameStrings(f.sf.toks(v.Type), []string{"grammar", ".", "Expression"}) {
				out[i][1] = "$tree"
			}
		}
	}
	for _, extra := range lits[1:] {
		out = append(out, [2]string{unk("further Evaluator literal"), unk(f.sf.oneLine(extra))})
	}
	return out
}

// maxExprOf recognises `grammar.MaxExpressions(<cfg>.withMaxExpressions)`.
func maxExprOf(e ast.Expr, cfg string) bool {
	c, ok := unparen(e).(*ast.CallExpr)
	if !ok || len(c.Args) != 1 || c.Ellipsis.IsValid() {
		return false
	}
	p, name, ok := pkgSel(c.Fun)
	if !ok || p != "grammar" || name != "MaxExpressions" {
		return false
	}
	s, ok := unparen(c.Args[0]).(*ast.SelectorExpr)
	return ok && isIdent(s.X, cfg) && s.Sel.Name == "withMaxExpressions"
}

// budgetCond recognises `<cfg>.withMaxExpressions <op> 0`.
func budgetCond(sf *srcFile, e ast.Expr, cfg, op string) bool {
	return sameStrings(sf.toks(e), []string{cfg, ".", "withMaxExpressions", op, "0"})
}

// createParse reads the parser plumbing of CreateEvaluator.  forward is ["nonzero"] when the parser
// options passed to grammar.Parse("", []byte(<expression>), X...) are exactly: nothing if the folded
// budget is 0, grammar.MaxExpressions(budget) otherwise — built either in a local slice
// (`if cfg.withMaxExpressions != 0 { X = append(X, grammar.MaxExpressions(cfg.withMaxExpressions)) }`)
// or by a helper `H(cfg)` with that meaning.
func createParse(f *fnDecl, pkg []*srcFile) (forward, parseCall []string, errCheckFirst bool) {
	forward, parseCall = []string{}, []string{}
	if f == nil || f.fd.Body == nil {
		return []string{unk("func CreateEvaluator not found")}, []string{unk("func CreateEvaluator not found")}, false
	}
	sf := f.sf
	names := readCreateNames(f)
	var calls []*ast.CallExpr
	var assert *ast.TypeAssertExpr
	var errCheck ast.Stmt
	ast.Inspect(f.fd.Body, func(n ast.Node) bool {
		switch x := n.(type) {
		case *ast.IfStmt:
			if errCheck == nil && names.errv != "" && sameStrings(sf.toks(x), []string{"if", names.errv, "!=", "nil", "{", "return", "nil", ",", names.errv, "}"}) {
				errCheck = x
			}
		case *ast.CallExpr:
			if p, name, ok := pkgSel(x.Fun); ok && p == "grammar" && name == "Parse" {
				calls = append(calls, x)
			}
		case *ast.TypeAssertExpr:
			if assert == nil && x.Type != nil && sameStrings(sf.toks(x.Type), []string{"grammar", ".", "Expression"}) {
				assert = x
			}
		}
		return true
	})
	if len(calls) != 1 || names.parse != calls[0] || names.cfg == "" {
		return []string{unk("CreateEvaluator is not `cfg := getOpts(opts...)` + one `v, err := grammar.Parse(...)`")}, []string{unk("no single grammar.Parse call")}, false
	}
	call := calls[0]
	parseCall = sf.toks(call)
	errCheckFirst = assert != nil && errCheck != nil && call.End() <= errCheck.Pos() && errCheck.End() <= assert.Pos()
	// grammar.Parse("", []byte(expression), X...)
	if len(call.Args) != 3 || !call.Ellipsis.IsValid() || !sameStrings(sf.toks(call.Args[0]), []string{`""`}) ||
		!sameStrings(sf.toks(call.Args[1]), []string{"[", "]", "byte", "(", names.expr, ")"}) {
		return []string{unk("arguments of grammar.Parse: " + sf.oneLine(call))}, parseCall, errCheckFirst
	}
	switch x := unparen(call.Args[2]).(type) {
	case *ast.Ident:
		// a local slice: declared empty, appended to exactly once, under the non-zero test
		declared, appended, other := 0, 0, 0
		ast.Inspect(f.fd.Body, func(n ast.Node) bool {
			switch st := n.(type) {
			case *ast.DeclStmt:
				if gd, ok := st.Decl.(*ast.GenDecl); ok && gd.Tok == token.VAR {
					for _, sp := range gd.Specs {
						if vs, ok := sp.(*ast.ValueSpec); ok && len(vs.Names) == 1 && vs.Names[0].Name == x.Name {
							if len(vs.Values) == 0 && sameStrings(sf.toks(vs.Type), []string{"[", "]", "grammar", ".", "Option"}) {
								declared++
							} else {
								other++
							}
						}
					}
				}
			case *ast.IfStmt:
				if st.Init == nil && st.Else == nil && budgetCond(sf, st.Cond, names.cfg, "!=") && len(st.Body.List) == 1 {
					if as, ok := st.Body.List[0].(*ast.AssignStmt); ok && as.Tok == token.ASSIGN && len(as.Lhs) == 1 && len(as.Rhs) == 1 && isIdent(as.Lhs[0], x.Name) {
						if c, ok := as.Rhs[0].(*ast.CallExpr); ok && isIdent(c.Fun, "append") && len(c.Args) == 2 && !c.Ellipsis.IsValid() && isIdent(c.Args[0], x.Name) && maxExprOf(c.Args[1], names.cfg) {
							appended++
							return false
						}
					}
				}
			case *ast.AssignStmt:
				for _, l := range st.Lhs {
					if isIdent(l, x.Name) {
						other++
					}
				}
			}
			return true
		})
		if declared == 1 && appended == 1 && other == 0 {
			return []string{"nonzero"}, parseCall, errCheckFirst
		}
		return []string{unk(fmt.Sprintf("parser options %s: %d declarations, %d guarded appends, %d other assignments", x.Name, declared, appended, other))}, parseCall, errCheckFirst
	case *ast.CallExpr:
		// a helper H(cfg)
		h, ok := x.Fun.(*ast.Ident)
		if !ok || len(x.Args) != 1 || x.Ellipsis.IsValid() || !isIdent(x.Args[0], names.cfg) {
			break
		}
		hf := findFn(h.Name, pkg...)
		if hf == nil || hf.fd.Recv != nil || hf.fd.Body == nil || len(hf.fd.Body.List) != 2 {
			break
		}
		hp := paramNames(hf.fd.Type)
		if len(hp) != 1 {
			break
		}
		one := func(e ast.Expr) bool { // []grammar.Option{grammar.MaxExpressions(c.withMaxExpressions)}
			cl, ok := unparen(e).(*ast.CompositeLit)
			return ok && cl.Type != nil && sameStrings(hf.sf.toks(cl.Type), []string{"[", "]", "grammar", ".", "Option"}) && len(cl.Elts) == 1 && maxExprOf(cl.Elts[0], hp[0])
		}
		is, ok1 := hf.fd.Body.List[0].(*ast.IfStmt)
		last, ok2 := hf.fd.Body.List[1].(*ast.ReturnStmt)
		if !ok1 || !ok2 || is.Init != nil || is.Else != nil || len(last.Results) != 1 {
			break
		}
		inner := singleReturn(is.Body.List, 1)
		if inner == nil {
			break
		}
		if budgetCond(hf.sf, is.Cond, hp[0], "==") && isIdent(inner.Results[0], "nil") && one(last.Results[0]) {
			return []string{"nonzero"}, parseCall, errCheckFirst
		}
		if budgetCond(hf.sf, is.Cond, hp[0], "!=") && one(inner.Results[0]) && isIdent(last.Results[0], "nil") {
			return []string{"nonzero"}, parseCall, errCheckFirst
		}
	}
	return []string{unk("parser options of grammar.Parse: " + sf.oneLine(call.Args[2]))}, parseCall, errCheckFirst
}

// newParserZeroMeansMax: newParser has, among its top-level statements, exactly
// one statement mentioning maxExprCnt and it is
// `if p.maxExprCnt == 0 { p.maxExprCnt = math.MaxUint64 }`.
func newParserZeroMeansMax(f *fnDecl) bool {
	if f == nil || f.fd.Body == nil {
		return false
	}
	sf := f.sf
	want := []string{"if", "p", ".", "maxExprCnt", "==", "0", "{", "p", ".", "maxExprCnt", "=", "math", ".", "MaxUint64", "}"}
	exact, mentions := 0, 0
	for _, st := range f.fd.Body.List {
		toks := sf.toks(st)
		for _, t := range toks {
			if t == "maxExprCnt" {
				mentions++
				break
			}
		}
		if sameStrings(toks, want) {
			exact++
		}
	}
	return exact == 1 && mentions == 1
}
