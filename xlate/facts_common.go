package main

// facts_common.go: shared machinery of the source-fact subcommands `tables`,
// `effects` and `options` (T3..T5).
//
// All three work the same way:
//
//   1. the Go source files are re-read and parsed with go/parser (no type
//      checking, no object resolution; /repo imports third-party modules);
//   2. a purely syntactic extractor fills a map from definition name to a Lean
//      value;
//   3. the map is printed according to a fixed schema (name, Lean type) so that
//      the shape of the generated file does not depend on the source.
//
// The extractors never guess.  A construct that does not have the expected
// shape is emitted as an explicit entry whose text starts with "unknown:" and
// carries the source text, so that the Lean side fails visibly.

import (
	"bytes"
	"crypto/sha256"
	"flag"
	"fmt"
	"go/ast"
	"go/parser"
	"go/printer"
	"go/token"
	"os"
	"path/filepath"
	"sort"
	"strings"
)

// ---------------------------------------------------------------------------
// Source files

type srcFile struct {
	rel     string // path relative to the repository root, e.g. "grammar/ast.go"
	path    string
	src     []byte
	sum     string
	fset    *token.FileSet
	file    *ast.File
	err     error
	renamed bool // some function was renamed back to its pinned local names
}

func loadSrc(repo, rel string) *srcFile {
	sf := &srcFile{rel: rel, path: filepath.Join(repo, filepath.FromSlash(rel)), fset: token.NewFileSet(), sum: "unavailable"}
	sf.src, sf.err = os.ReadFile(sf.path)
	if sf.err != nil {
		return sf
	}
	sf.sum = fmt.Sprintf("%x", sha256.Sum256(sf.src))
	sf.file, sf.err = parser.ParseFile(sf.fset, sf.path, sf.src, parser.ParseComments|parser.SkipObjectResolution)
	if sf.err != nil {
		sf.file = nil
		return sf
	}
	// rename-back normalisation (alphafn.go: unexported package-level function names; alpha.go: local
	// identifiers); sum stays that of the file on disk
	src1 := sf.src
	switch {
	case !strings.Contains(rel, "/"):
		src1 = applyFnRenames(sf.path, src1, fnRenames(repo, "."))
	case rel == "grammar/ast.go":
		src1 = applyFnRenames(sf.path, src1, fnRenames(repo, "grammar"))
	}
	if src2 := renameBack(rel, sf.path, src1); len(src2) != len(sf.src) || string(src2) != string(sf.src) {
		fset2 := token.NewFileSet()
		if file2, err := parser.ParseFile(fset2, sf.path, src2, parser.ParseComments|parser.SkipObjectResolution); err == nil {
			sf.src, sf.fset, sf.file = src2, fset2, file2
			sf.renamed = true
			fmt.Fprintf(os.Stderr, "xlate: %s: identifiers renamed back to the pinned names (pins/locals.json, pins/funcs.json)\n", rel)
		}
	}
	return sf
}

func (sf *srcFile) offset(p token.Pos) int { return sf.fset.Position(p).Offset }

// text is the raw source text of a node.
func (sf *srcFile) text(n ast.Node) string {
	return sf.span(n.Pos(), n.End())
}

func (sf *srcFile) span(from, to token.Pos) string {
	lo, hi := sf.offset(from), sf.offset(to)
	if lo < 0 || hi < lo || hi > len(sf.src) {
		return ""
	}
	return string(sf.src[lo:hi])
}

// toks is the token list of a node (go/scanner; comments and automatic
// semicolons dropped).
func (sf *srcFile) toks(n ast.Node) []string { return goTokens(sf.text(n)) }

// bodyToks is the token list of the text between the braces of a block.
func (sf *srcFile) bodyToks(b *ast.BlockStmt) []string {
	if b == nil {
		return []string{"unknown:no body"}
	}
	return goTokens(sf.span(b.Lbrace+1, b.Rbrace))
}

// stmtsToks is the token list of a run of consecutive statements.
func (sf *srcFile) stmtsToks(list []ast.Stmt) []string {
	if len(list) == 0 {
		return []string{}
	}
	return goTokens(sf.span(list[0].Pos(), list[len(list)-1].End()))
}

// oneLine prints a node with go/printer and collapses white space (outside
// string and rune literals) to single blanks.
func (sf *srcFile) oneLine(n ast.Node) string {
	var buf bytes.Buffer
	if err := printer.Fprint(&buf, sf.fset, n); err != nil {
		return collapseWS(sf.text(n))
	}
	return collapseWS(buf.String())
}

func (sf *srcFile) stmtsOneLine(list []ast.Stmt) string {
	parts := make([]string, len(list))
	for i, s := range list {
		parts[i] = sf.oneLine(s)
	}
	return strings.Join(parts, "; ")
}

// collapseWS replaces every run of white space outside Go string / rune
// literals by one blank and trims the ends.
func collapseWS(s string) string {
	var b strings.Builder
	rs := []rune(s)
	pendingSpace := false
	for i := 0; i < len(rs); i++ {
		r := rs[i]
		switch {
		case r == ' ' || r == '\t' || r == '\n' || r == '\r':
			pendingSpace = true
		case r == '"' || r == '\'' || r == '`':
			if pendingSpace && b.Len() > 0 {
				b.WriteByte(' ')
			}
			pendingSpace = false
			b.WriteRune(r)
			i++
			for i < len(rs) {
				b.WriteRune(rs[i])
				if rs[i] == '\\' && r != '`' && i+1 < len(rs) {
					i++
					b.WriteRune(rs[i])
				} else if rs[i] == r {
					break
				}
				i++
			}
		default:
			if pendingSpace && b.Len() > 0 {
				b.WriteByte(' ')
			}
			pendingSpace = false
			b.WriteRune(r)
		}
	}
	return b.String()
}

func unk(text string) string { return "unknown:" + text }

// ---------------------------------------------------------------------------
// Functions

type fnDecl struct {
	sf  *srcFile
	fd  *ast.FuncDecl
	key string // Name or Recv.Name
}

// recvBase is the receiver type name without pointer, parentheses and type
// arguments; "" for a plain function.
func recvBase(fd *ast.FuncDecl) string {
	if fd.Recv == nil || len(fd.Recv.List) == 0 {
		return ""
	}
	t := fd.Recv.List[0].Type
	for {
		switch tt := t.(type) {
		case *ast.StarExpr:
			t = tt.X
		case *ast.ParenExpr:
			t = tt.X
		case *ast.IndexExpr:
			t = tt.X
		case *ast.IndexListExpr:
			t = tt.X
		case *ast.Ident:
			return tt.Name
		default:
			return "?"
		}
	}
}

// recvName is the name of the receiver variable ("" if anonymous or none).
func recvName(fd *ast.FuncDecl) string {
	if fd.Recv == nil || len(fd.Recv.List) == 0 || len(fd.Recv.List[0].Names) == 0 {
		return ""
	}
	return fd.Recv.List[0].Names[0].Name
}

func funcKey(fd *ast.FuncDecl) string {
	if r := recvBase(fd); r != "" {
		return r + "." + fd.Name.Name
	}
	return fd.Name.Name
}

// funcsOf lists the function and method declarations of a file in source order.
func funcsOf(sf *srcFile) []fnDecl {
	var out []fnDecl
	if sf == nil || sf.file == nil {
		return out
	}
	for _, d := range sf.file.Decls {
		if fd, ok := d.(*ast.FuncDecl); ok {
			out = append(out, fnDecl{sf: sf, fd: fd, key: funcKey(fd)})
		}
	}
	return out
}

// findFn returns the first declaration with the given key in the given files.
func findFn(key string, sfs ...*srcFile) *fnDecl {
	for _, sf := range sfs {
		for _, f := range funcsOf(sf) {
			if f.key == key {
				f := f
				return &f
			}
		}
	}
	return nil
}

// fnBodyToks is the body token list of a function looked up by key.
func fnBodyToks(key string, sfs ...*srcFile) []string {
	f := findFn(key, sfs...)
	if f == nil {
		return []string{unk("function " + key + " not found")}
	}
	return f.sf.bodyToks(f.fd.Body)
}

// paramNames lists the parameter names of a function type (blank for unnamed).
func paramNames(ft *ast.FuncType) []string {
	var out []string
	if ft == nil || ft.Params == nil {
		return out
	}
	for _, f := range ft.Params.List {
		if len(f.Names) == 0 {
			out = append(out, "_")
		}
		for _, n := range f.Names {
			out = append(out, n.Name)
		}
	}
	return out
}

func isIdent(e ast.Expr, name string) bool {
	id, ok := e.(*ast.Ident)
	return ok && id.Name == name
}

func unparen(e ast.Expr) ast.Expr {
	for {
		p, ok := e.(*ast.ParenExpr)
		if !ok {
			return e
		}
		e = p.X
	}
}

// pkgSel recognises `pkg.Name` where pkg is a plain identifier.
func pkgSel(e ast.Expr) (pkg, name string, ok bool) {
	s, isSel := e.(*ast.SelectorExpr)
	if !isSel {
		return "", "", false
	}
	id, isID := s.X.(*ast.Ident)
	if !isID {
		return "", "", false
	}
	return id.Name, s.Sel.Name, true
}

// structFields lists (name, type text) of the fields of the struct type
// declared under the given name; embedded fields are listed under their type
// text.  found is false if there is no such struct type.
func structFields(sf *srcFile, typeName string) (out [][2]string, found bool) {
	if sf == nil || sf.file == nil {
		return nil, false
	}
	for _, d := range sf.file.Decls {
		gd, ok := d.(*ast.GenDecl)
		if !ok || gd.Tok != token.TYPE {
			continue
		}
		for _, sp := range gd.Specs {
			ts, ok := sp.(*ast.TypeSpec)
			if !ok || ts.Name.Name != typeName {
				continue
			}
			st, ok := ts.Type.(*ast.StructType)
			if !ok {
				return [][2]string{{unk("type " + typeName + " is not a struct"), unk(sf.oneLine(ts.Type))}}, true
			}
			for _, f := range st.Fields.List {
				tt := sf.oneLine(f.Type)
				if len(f.Names) == 0 {
					out = append(out, [2]string{tt, tt})
				}
				for _, n := range f.Names {
					out = append(out, [2]string{n.Name, tt})
				}
			}
			return out, true
		}
	}
	return nil, false
}

// ---------------------------------------------------------------------------
// Lean values

type lval interface{ pieces() []string }

type (
	lStr  string
	lBool bool
	lTup  []lval
	lList []lval
)

func (s lStr) pieces() []string  { return []string{leanString(string(s))} }
func (b lBool) pieces() []string { return []string{leanBool(bool(b))} }
func (t lTup) pieces() []string  { return wrapPieces("(", ")", t) }
func (l lList) pieces() []string { return wrapPieces("[", "]", l) }

func wrapPieces(open, close string, items []lval) []string {
	if len(items) == 0 {
		return []string{open + close}
	}
	var out []string
	for i, it := range items {
		p := it.pieces()
		if i < len(items)-1 {
			p[len(p)-1] += ","
		}
		out = append(out, p...)
	}
	out[0] = open + out[0]
	out[len(out)-1] += close
	return out
}

func lStrs(ss []string) lList {
	out := make(lList, len(ss))
	for i, s := range ss {
		out[i] = lStr(s)
	}
	return out
}

func lPairs(ps [][2]string) lList {
	out := make(lList, len(ps))
	for i, p := range ps {
		out[i] = lTup{lStr(p[0]), lStr(p[1])}
	}
	return out
}

func lTriples(ts [][3]string) lList {
	out := make(lList, len(ts))
	for i, t := range ts {
		out[i] = lTup{lStr(t[0]), lStr(t[1]), lStr(t[2])}
	}
	return out
}

func lQuads(qs [][4]string) lList {
	out := make(lList, len(qs))
	for i, q := range qs {
		out[i] = lTup{lStr(q[0]), lStr(q[1]), lStr(q[2]), lStr(q[3])}
	}
	return out
}

type keyedToks struct {
	key  string
	toks []string
}

func lKeyed(ks []keyedToks) lList {
	out := make(lList, len(ks))
	for i, k := range ks {
		out[i] = lTup{lStr(k.key), lStrs(k.toks)}
	}
	return out
}

// defSpec is one definition of a generated file.  typ "Bool" is a Bool, every
// other type is a list type.
type defSpec struct {
	name string
	typ  string
}

// chunkPieces bounds the number of atoms per emitted list literal; longer lists
// are split into name_0, name_1, ... joined with ++ (keeps Lean elaboration fast).
const chunkPieces = 1500

func fillLines(b *strings.Builder, ps []string, indent, cont int, suffix string) {
	line := pad(indent)
	empty := true
	for i, p := range ps {
		if i == len(ps)-1 {
			p += suffix
		}
		switch {
		case empty:
			line += p
			empty = false
		case len(line)+1+len(p) <= maxWidth:
			line += " " + p
		default:
			b.WriteString(line + "\n")
			line = pad(cont) + p
		}
	}
	b.WriteString(line + "\n")
}

func emitListLiteral(b *strings.Builder, name, typ string, elems []lval) {
	if len(elems) == 0 {
		fmt.Fprintf(b, "def %s : %s := []\n\n", name, typ)
		return
	}
	fmt.Fprintf(b, "def %s : %s := [\n", name, typ)
	for i, e := range elems {
		sfx := ","
		if i == len(elems)-1 {
			sfx = ""
		}
		fillLines(b, e.pieces(), 2, 6, sfx)
	}
	b.WriteString("]\n\n")
}

func emitDef(b *strings.Builder, d defSpec, v lval) {
	if d.typ == "Bool" {
		bv, _ := v.(lBool)
		fmt.Fprintf(b, "def %s : Bool := %s\n\n", d.name, leanBool(bool(bv)))
		return
	}
	l, _ := v.(lList)
	// split into chunks of at most chunkPieces atoms (at least one element each)
	var chunks [][]lval
	var cur []lval
	n := 0
	for _, e := range l {
		k := len(e.pieces())
		if len(cur) > 0 && n+k > chunkPieces {
			chunks = append(chunks, cur)
			cur, n = nil, 0
		}
		cur = append(cur, e)
		n += k
	}
	if len(cur) > 0 {
		chunks = append(chunks, cur)
	}
	if len(chunks) <= 1 {
		emitListLiteral(b, d.name, d.typ, l)
		return
	}
	names := make([]string, len(chunks))
	for i, c := range chunks {
		names[i] = fmt.Sprintf("%s_%d", d.name, i)
		emitListLiteral(b, names[i], d.typ, c)
	}
	fmt.Fprintf(b, "def %s : %s :=\n", d.name, d.typ)
	fillLines(b, strings.Split(strings.Join(names, " ++ "), " "), 2, 4, "")
	b.WriteString("\n")
}

// emitFactsFile prints a generated file.  With a non-empty fatal list every
// definition is printed empty (false for Bool).
func emitFactsFile(ns string, srcs []*srcFile, schema []defSpec, vals map[string]lval, fatal []string, notes []string) string {
	var b strings.Builder
	paths := make([]string, len(srcs))
	for i, s := range srcs {
		paths[i] = s.path
	}
	fmt.Fprintf(&b, "-- GENERATED by /verif/xlate from %s; do not edit.\n", strings.Join(paths, ", "))
	for _, s := range srcs {
		fmt.Fprintf(&b, "-- source SHA-256 %s: %s\n", s.path, s.sum)
	}
	for _, f := range fatal {
		fmt.Fprintf(&b, "-- ERROR: %s\n", commentSafe(f))
	}
	for _, n := range notes {
		fmt.Fprintf(&b, "-- NOTE: %s\n", commentSafe(n))
	}
	fmt.Fprintf(&b, "\nnamespace %s\n\n", ns)
	for _, d := range schema {
		v := vals[d.name]
		if len(fatal) > 0 {
			v = nil
		} else if v == nil {
			// extractor bug: a definition of the schema was not produced
			fmt.Fprintf(&b, "-- ERROR: xlate produced no value for %s\n", d.name)
		}
		emitDef(&b, d, v)
	}
	fmt.Fprintf(&b, "end %s\n", ns)
	return b.String()
}

// ---------------------------------------------------------------------------
// Driver

type factsCmd struct {
	name    string // subcommand name
	outFile string // e.g. "Tables.lean"
	ns      string // e.g. "BexprGen.Tables"
	schema  []defSpec
	// load reads the source files; the returned list is in header order.
	load func(repo string) ([]*srcFile, []string)
	// extract computes the values; only called when every file parsed.
	extract func(files map[string]*srcFile) (map[string]lval, []string)
}

func (c *factsCmd) run(args []string) int {
	fs := flag.NewFlagSet(c.name, flag.ContinueOnError)
	repo := fs.String("repo", "/repo", "root of the go-bexpr source tree")
	out := fs.String("out", "/verif/lean/BexprGen", "output directory for the generated Lean files")
	if err := fs.Parse(args); err != nil {
		return 64
	}
	if fs.NArg() != 0 {
		fmt.Fprintf(os.Stderr, "xlate %s: unexpected arguments %q\n", c.name, fs.Args())
		return 64
	}
	if err := os.MkdirAll(*out, 0o755); err != nil {
		fmt.Fprintf(os.Stderr, "xlate %s: %v\n", c.name, err)
		return 1
	}
	target := filepath.Join(*out, c.outFile)
	if err := os.Remove(target); err != nil && !os.IsNotExist(err) {
		fmt.Fprintf(os.Stderr, "xlate %s: cannot remove stale output: %v\n", c.name, err)
		return 1
	}

	srcs, fatal := c.load(*repo)
	files := map[string]*srcFile{}
	for _, s := range srcs {
		files[s.rel] = s
		if s.err != nil {
			fatal = append(fatal, fmt.Sprintf("source could not be parsed: %s: %v", s.path, s.err))
		}
	}
	var vals map[string]lval
	var notes []string
	if len(fatal) == 0 {
		func() {
			defer func() {
				if r := recover(); r != nil {
					fatal = append(fatal, fmt.Sprintf("internal error in xlate %s: %v", c.name, r))
				}
			}()
			vals, notes = c.extract(files)
		}()
	}
	for _, f := range fatal {
		fmt.Fprintf(os.Stderr, "xlate %s: %s\n", c.name, f)
	}
	text := emitFactsFile(c.ns, srcs, c.schema, vals, fatal, notes)
	if err := os.WriteFile(target, []byte(text), 0o644); err != nil {
		fmt.Fprintf(os.Stderr, "xlate %s: %v\n", c.name, err)
		return 1
	}
	unknowns := strings.Count(text, `"unknown:`)
	fmt.Printf("%s: %d source files, %d definitions, %d unknown entries -> %s\n", c.name, len(srcs), len(c.schema), unknowns, target)
	if len(fatal) > 0 {
		return 2
	}
	return 0
}

// loadFixed returns a loader for a fixed list of repository-relative paths.
func loadFixed(rels ...string) func(repo string) ([]*srcFile, []string) {
	return func(repo string) ([]*srcFile, []string) {
		out := make([]*srcFile, len(rels))
		for i, r := range rels {
			out[i] = loadSrc(repo, r)
		}
		return out, nil
	}
}

// loadFixedPlusRoot loads the named files and, after them, every other non-test Go file of the
// repository root that has no `verif` build constraint (a function may have been moved to a new
// file of package bexpr).
func loadFixedPlusRoot(rels ...string) func(repo string) ([]*srcFile, []string) {
	return func(repo string) ([]*srcFile, []string) {
		out, fatal := loadFixed(rels...)(repo)
		have := map[string]bool{}
		for _, r := range rels {
			have[r] = true
		}
		names, _ := filepath.Glob(filepath.Join(repo, "*.go"))
		sort.Strings(names)
		for _, p := range names {
			base := filepath.Base(p)
			if have[base] || strings.HasSuffix(base, "_test.go") {
				continue
			}
			if raw, err := os.ReadFile(p); err != nil || hasVerifConstraint(raw) {
				continue
			}
			out = append(out, loadSrc(repo, base))
		}
		return out, fatal
	}
}

// rootFiles lists the loaded files of the repository root (package bexpr): first the given ones,
// then the others in name order.
func rootFiles(files map[string]*srcFile, first ...string) []*srcFile {
	var out []*srcFile
	seen := map[string]bool{}
	for _, r := range first {
		if sf := files[r]; sf != nil {
			out = append(out, sf)
			seen[r] = true
		}
	}
	var rest []string
	for rel := range files {
		if !seen[rel] && !strings.Contains(rel, "/") {
			rest = append(rest, rel)
		}
	}
	sort.Strings(rest)
	for _, r := range rest {
		out = append(out, files[r])
	}
	return out
}

// runAll runs every translator in sequence; the exit code is the maximum.
func runAll(args []string) int {
	exit := 0
	for _, name := range []string{"grammar", "tables", "effects", "options", "failnames", "golite"} {
		for _, c := range subcommands {
			if c.name == name {
				if rc := c.run(args); rc > exit {
					exit = rc
				}
			}
		}
	}
	return exit
}
