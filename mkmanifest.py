#!/usr/bin/env python3
"""Generate MANIFEST.json from checkspec.py (the single table the orchestrator reads)."""
import json, sys, os
sys.path.insert(0, os.path.dirname(os.path.abspath(__file__)))
from checkspec import PROPS, COMMON_TRUSTED

hooks = ["c743cec", "d0b637e", "158ed7d", "65ace8c"]
checks = []
for pid, sp in sorted(PROPS.items()):
    thms = [t for ts in sp.get("theorems", {}).values() for t in ts]
    if not thms:
        # the theorems of the property's own Props modules (their `#print axioms` lines, which ./check audits)
        import re
        root = os.path.dirname(os.path.abspath(__file__))
        for mod in sp.get("lean", []):
            if not mod.startswith("Props."):
                continue
            path = os.path.join(root, "lean", mod.replace(".", "/") + ".lean")
            if os.path.exists(path):
                own = [m.group(1) for m in re.finditer(r"^#print axioms (\S+)", open(path, encoding="utf-8").read(), re.M)]
                thms += [t for t in own if ".Example." not in t]
    nthms = len(thms)
    text = sp.get("claim") or (
        "Lean 4 theorems about the executable model (%s), kernel-checked with audited axioms, tied to /repo on every run by regenerated tables "
        "and by a correspondence run of the real code against the model on generated inputs; the property's direct oracle on the real code supplies failing inputs."
        % ("%d theorems in %s, e.g. %s" % (nthms, ", ".join("lean/" + m.replace(".", "/") + ".lean" for m in sp.get("lean", []) if m.startswith("Props.")), ", ".join(t.split(".")[-1] for t in thms[:8])) + (" …" if len(thms) > 8 else "") if thms else "no theorem yet for this property: correspondence + direct oracle only"))
    checks.append(dict(
        property_id=pid,
        quick_cmd="./check %s --tier quick" % pid,
        thorough_cmd="./check %s --tier thorough" % pid,
        evidence_file="/verif/evidence/%s.json" % pid,
        replay_cmd_template="./check %s --replay {path}" % pid,
        engine="lean4-model+correspondence",
        level_claimed=dict(category=sp["level"], text=text, design_ref=sp.get("design_ref", "DESIGN.md §0 (table), §5 (property notes), §8 (trusted base)")),
        level_note="; ".join(COMMON_TRUSTED[:3] + sp.get("trusted", [])) + ("; PARTIAL: " + sp["partial"] if sp.get("partial") else ""),
        technique=sp.get("technique", "machine-checked proof in Lean 4 over a model tied to the source by regeneration + differential correspondence"),
    ))
m = dict(
    version=1,
    setup_cmd="./check --setup",
    hooks=dict(guard="verif", enable="go build -tags verif (files grammar/verif_hooks.go, verif_hooks.go; read-only accessors)",
               baseline_off_cmd="cd /repo && GOFLAGS=-mod=mod GOPROXY=off GOSUMDB=off GOTOOLCHAIN=local go test -vet=off -count=1 ./...",
               source_commits=hooks, add_only=True),
    engines=[dict(name="lean4-model+correspondence", path="/verif/lean", serves_properties=sorted(PROPS), kind_free_text="Lean 4 model and theorems; Go translators (xlate) and harness; python orchestrator ./check")],
    checks=checks,
    notes="See DESIGN.md. known_findings.jsonl lists the one recorded finding (C16, F11) and the fix: commits (F1-F10, F12). seeded/ holds 370 confirmed breaking changes (eight rounds of independently written changes + 10 reverted fixes) and seeded/RESULTS.md says which check reports each and how; validation/ holds the patches used to validate the semantic ties; DESIGN_errtext.md, DESIGN_fullstack.md, DESIGN_golite.md are addenda to DESIGN.md.",
    not_applicable=[],
)
json.dump(m, open(os.path.join(os.path.dirname(os.path.abspath(__file__)), "MANIFEST.json"), "w"), indent=1)
print("MANIFEST.json written:", len(checks), "checks")
