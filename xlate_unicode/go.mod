module xlate_unicode

go 1.23
