// Command harness_strconv generates differential-test cases for the Lean model
// of strconv / unicode/utf8 / unicode (the `bxstrconv` executable) and records
// what the real Go library answers.
//
//	go run . -seed N -n COUNT -cases cases.txt -impl impl.txt
//
// cases.txt holds one request per line, impl.txt the real answers, line by line.
// Protocol (see /verif/lean/Bexpr/StrconvDriver.lean): words separated by single
// spaces, byte strings lowercase hex with prefix `x`.
//
//	bool xHEX            → ok 0|1 / syn
//	int BASE BITS xHEX   → ok <int> / syn / range
//	uint BASE BITS xHEX  → ok <nat> / syn / range
//	float BITS xHEX      → ok <bits> / syn / range
//	unquote xHEX         → ok xHEX / err
//	quote xHEX           → ok xHEX
//	rune xHEX            → ok <rune> <width>
//	isprint N / isL N / isN N → ok 0|1
//	f64to32 N / f32to64 N     → ok N
//
// All randomness comes from the single -seed.
package main

import (
	"bufio"
	"encoding/hex"
	"errors"
	"flag"
	"fmt"
	"math"
	"math/rand"
	"os"
	"sort"
	"strconv"
	"unicode"
	"unicode/utf8"
)

type gen struct {
	r *rand.Rand
}

func (g *gen) intn(n int) int        { return g.r.Intn(n) }
func (g *gen) chance(p float64) bool { return g.r.Float64() < p }
func (g *gen) pick(xs []string) string {
	return xs[g.r.Intn(len(xs))]
}
func (g *gen) between(lo, hi int) int { return lo + g.r.Intn(hi-lo+1) }

func hx(s string) string { return "x" + hex.EncodeToString([]byte(s)) }

func b01(b bool) string {
	if b {
		return "ok 1"
	}
	return "ok 0"
}

func numErr(err error) string {
	switch {
	case errors.Is(err, strconv.ErrSyntax):
		return "syn"
	case errors.Is(err, strconv.ErrRange):
		return "range"
	}
	panic("unexpected strconv error: " + err.Error())
}

// ---- answers from the real library ---------------------------------------

func ansBool(s string) string {
	v, err := strconv.ParseBool(s)
	if err != nil {
		return numErr(err)
	}
	return b01(v)
}

func ansInt(s string, base, bits int) string {
	v, err := strconv.ParseInt(s, base, bits)
	if err != nil {
		return numErr(err)
	}
	return "ok " + strconv.FormatInt(v, 10)
}

func ansUint(s string, base, bits int) string {
	v, err := strconv.ParseUint(s, base, bits)
	if err != nil {
		return numErr(err)
	}
	return "ok " + strconv.FormatUint(v, 10)
}

func ansFloat(s string, bits int) string {
	v, err := strconv.ParseFloat(s, bits)
	if err != nil {
		return numErr(err)
	}
	if bits == 32 {
		return "ok " + strconv.FormatUint(uint64(math.Float32bits(float32(v))), 10)
	}
	return "ok " + strconv.FormatUint(math.Float64bits(v), 10)
}

func ansUnquote(s string) string {
	v, err := strconv.Unquote(s)
	if err != nil {
		return "err"
	}
	return "ok " + hx(v)
}

func ansQuote(s string) string {
	q := fmt.Sprintf("%q", s)
	if q != strconv.Quote(s) {
		panic("fmt %q and strconv.Quote disagree")
	}
	return "ok " + hx(q)
}

func ansRune(s string) string {
	r, w := utf8.DecodeRune([]byte(s))
	r2, w2 := utf8.DecodeRuneInString(s)
	if r != r2 || w != w2 {
		panic("DecodeRune and DecodeRuneInString disagree")
	}
	return fmt.Sprintf("ok %d %d", r, w)
}

// asRune maps a protocol number to a rune; numbers beyond int32 cannot be
// generated (the generators stay below 0x200000).
func ansIsPrint(n int) string { return b01(strconv.IsPrint(rune(n))) }
func ansIsL(n int) string     { return b01(unicode.Is(unicode.L, rune(n))) }
func ansIsN(n int) string     { return b01(unicode.Is(unicode.N, rune(n))) }

//go:noinline
func narrow(f float64) float32 { return float32(f) }

//go:noinline
func widen(f float32) float64 { return float64(f) }

func ansF64to32(n uint64) string {
	return "ok " + strconv.FormatUint(uint64(math.Float32bits(narrow(math.Float64frombits(n)))), 10)
}

func ansF32to64(n uint32) string {
	return "ok " + strconv.FormatUint(math.Float64bits(widen(math.Float32frombits(n))), 10)
}

// ---- case mix ---------------------------------------------------------------

type kase struct{ req, ans string }

func (g *gen) next() kase {
	p := g.intn(100)
	switch {
	case p < 30:
		return g.floatCase()
	case p < 45:
		return g.intCase()
	case p < 55:
		return g.uintCase()
	case p < 70:
		return g.unquoteCase()
	case p < 80:
		return g.quoteCase()
	case p < 85:
		return g.runeCase()
	case p < 88:
		return g.boolCase()
	case p < 94:
		return g.classCase()
	default:
		return g.convCase()
	}
}

func main() {
	seed := flag.Int64("seed", 1, "random seed (the only source of randomness)")
	n := flag.Int("n", 1000, "number of cases")
	casesPath := flag.String("cases", "cases.txt", "output: request lines")
	implPath := flag.String("impl", "impl.txt", "output: answers of the real Go library")
	flag.BoolVar(&allowBug800, "bug800", false, "also generate decimal float literals with more than 800 integer digits (go1.23.5 answers them wrongly; expect differences)")
	flag.Parse()

	g := &gen{r: rand.New(rand.NewSource(*seed))}

	cf, err := os.Create(*casesPath)
	if err != nil {
		fmt.Fprintln(os.Stderr, err)
		os.Exit(2)
	}
	defer cf.Close()
	af, err := os.Create(*implPath)
	if err != nil {
		fmt.Fprintln(os.Stderr, err)
		os.Exit(2)
	}
	defer af.Close()
	cw := bufio.NewWriterSize(cf, 1<<20)
	aw := bufio.NewWriterSize(af, 1<<20)
	defer cw.Flush()
	defer aw.Flush()

	counts := map[string]int{}
	for i := 0; i < *n; i++ {
		k := g.next()
		cw.WriteString(k.req)
		cw.WriteByte('\n')
		aw.WriteString(k.ans)
		aw.WriteByte('\n')
		cmd := k.req
		for j := 0; j < len(cmd); j++ {
			if cmd[j] == ' ' {
				cmd = cmd[:j]
				break
			}
		}
		counts[cmd]++
	}
	var names []string
	for c := range counts {
		names = append(names, c)
	}
	sort.Strings(names)
	fmt.Fprintf(os.Stderr, "generated %d cases (seed %d):", *n, *seed)
	for _, c := range names {
		fmt.Fprintf(os.Stderr, " %s=%d", c, counts[c])
	}
	fmt.Fprintln(os.Stderr)
}
