#!/bin/sh
# Differential test of the Lean strconv/utf8/unicode model (bxstrconv) against
# the real Go library.
#
#   run.sh SEED N [extra generator flags, e.g. -bug800]
#
# Generates N cases from SEED, pipes them through bxstrconv, compares with Go's
# answers; prints the number of cases (total and per command), the throughput
# of the model, and the first 20 differences.  Exit status 1 on any difference.
set -eu
SEED="${1:-1}"
N="${2:-200000}"
[ $# -ge 1 ] && shift
[ $# -ge 1 ] && shift
HERE="$(cd "$(dirname "$0")" && pwd)"
BX="${BXSTRCONV:-/verif/lean/.lake/build/bin/bxstrconv}"
export GOFLAGS=-mod=mod GOPROXY=off GOSUMDB=off GOTOOLCHAIN=local

if [ ! -x "$BX" ]; then
  (cd /verif/lean && lake build bxstrconv) >&2
fi

TMP="$(mktemp -d "${TMPDIR:-/tmp}/bxstrconv.XXXXXX")"
trap 'rm -rf "$TMP"' EXIT

(cd "$HERE" && go run . -seed "$SEED" -n "$N" -cases "$TMP/cases.txt" -impl "$TMP/impl.txt" "$@")

T0=$(date +%s.%N)
"$BX" < "$TMP/cases.txt" > "$TMP/model.txt"
T1=$(date +%s.%N)

CASES=$(wc -l < "$TMP/cases.txt")
ANSWERS=$(wc -l < "$TMP/model.txt")
echo "seed $SEED: $CASES cases, $ANSWERS model answers"
awk -v t0="$T0" -v t1="$T1" -v n="$CASES" 'BEGIN { d = t1 - t0; if (d <= 0) d = 0.001; printf "model time %.2fs, %.0f cases/s\n", d, n / d }'
echo "per command (cases / differences):"
paste -d '|' "$TMP/cases.txt" "$TMP/impl.txt" "$TMP/model.txt" | awk -F '|' '
  { split($1, w, " "); c[w[1]]++; if ($2 != $3) d[w[1]]++ }
  END { for (k in c) printf "  %-8s %8d %6d\n", k, c[k], d[k] + 0 }' | sort

if [ "$CASES" != "$ANSWERS" ]; then
  echo "FAIL: line count mismatch"
  exit 1
fi

NDIFF=$(paste -d '|' "$TMP/cases.txt" "$TMP/impl.txt" "$TMP/model.txt" | awk -F '|' '$2 != $3' | wc -l)
echo "differences: $NDIFF"
if [ "$NDIFF" != "0" ]; then
  paste -d '|' "$TMP/cases.txt" "$TMP/impl.txt" "$TMP/model.txt" | awk -F '|' '$2 != $3 { printf "  %s\n      go:    %s\n      model: %s\n", substr($1, 1, 400), $2, $3 }' | head -60
  exit 1
fi
