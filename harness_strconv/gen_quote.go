package main

import (
	"fmt"
	"strconv"
	"strings"
	"unicode"
	"unicode/utf8"
)

// interesting runes: printable/non-printable borders, specials.
var runesOfInterest = []rune{
	0x00, 0x01, 0x07, 0x08, 0x09, 0x0A, 0x0B, 0x0C, 0x0D, 0x1B, 0x1F, 0x20, 0x22, 0x27, 0x5C, 0x60, 0x7E, 0x7F,
	0x80, 0x85, 0x9F, 0xA0, 0xA1, 0xAD, 0xAE, 0xFF, 0x100, 0x378, 0x379, 0x7FF, 0x800, 0x2028, 0x2029, 0x200B,
	0x202E, 0x2060, 0x3000, 0xD7FF, 0xE000, 0xF8FF, 0xFEFF, 0xFFFD, 0xFFFE, 0xFFFF, 0x10000, 0x1F600, 0x1FFFF,
	0x20000, 0x2FFFF, 0x30000, 0xE0001, 0xE0100, 0xF0000, 0x10FFFD, 0x10FFFE, 0x10FFFF, 'a', 'Z', '0', 'é', 'ß', '世', '界', 'д',
}

// invalid UTF-8 fragments: lone continuation, truncated, overlong, surrogate,
// beyond U+10FFFF, illegal lead bytes.
var badUTF8 = []string{
	"\x80", "\xBF", "\xC0", "\xC1", "\xC0\x80", "\xC1\xBF", "\xC2", "\xDF", "\xE0", "\xE0\x80", "\xE0\x80\x80", "\xE0\x9F\xBF",
	"\xE0\xA0", "\xE1\x80", "\xED\xA0\x80", "\xED\xBF\xBF", "\xED\x9F", "\xEF\xBF", "\xF0", "\xF0\x80\x80\x80",
	"\xF0\x8F\xBF\xBF", "\xF0\x90", "\xF0\x90\x80", "\xF4\x90\x80\x80", "\xF4\x8F\xBF", "\xF5", "\xF5\x80\x80\x80",
	"\xF8\x88\x80\x80\x80", "\xFE", "\xFF", "\xC2\x20", "\xE2\x82\x20", "\xE2\x20\xAC", "\xF0\x9F\x98\x20", "\xF0\x9F\x20\x80",
	"\xF0\x20\x98\x80", "\xE2\x82", "\xF0\x9F\x98",
}

func (g *gen) anyRune() rune {
	switch g.intn(6) {
	case 0, 1:
		return runesOfInterest[g.intn(len(runesOfInterest))]
	case 2:
		return rune(g.intn(0x80))
	case 3:
		return rune(g.intn(0x3000))
	default:
		for {
			r := rune(g.intn(0x110000))
			if utf8.ValidRune(r) {
				return r
			}
		}
	}
}

// randomBytes builds a byte string mixing ASCII, controls, valid multibyte runes
// and invalid UTF-8.
func (g *gen) randomBytes(maxParts int) string {
	var sb strings.Builder
	n := g.intn(maxParts + 1)
	for i := 0; i < n; i++ {
		switch g.intn(10) {
		case 0, 1, 2:
			sb.WriteByte(byte(0x20 + g.intn(0x5F)))
		case 3:
			sb.WriteByte(byte(g.intn(0x20)))
		case 4:
			sb.WriteString(g.pick([]string{"\"", "'", "\\", "`", "\x7f", "\n", "\r", "\t", "\x00"}))
		case 5, 6, 7:
			sb.WriteRune(g.anyRune())
		case 8:
			sb.WriteString(g.pick(badUTF8))
		default:
			sb.WriteByte(byte(0x80 + g.intn(0x80)))
		}
	}
	return sb.String()
}

func (g *gen) quoteCase() kase {
	s := g.randomBytes(12)
	return kase{"quote " + hx(s), ansQuote(s)}
}

func (g *gen) runeCase() kase {
	var s string
	switch g.intn(6) {
	case 0: // valid encoding, maybe truncated, plus trailing bytes
		b := []byte(string(g.anyRune()))
		if g.chance(0.3) && len(b) > 1 {
			b = b[:g.between(1, len(b)-1)]
		}
		s = string(b) + g.randomBytes(2)
	case 1:
		s = g.pick(badUTF8) + g.randomBytes(2)
	case 2: // fully random 0..5 bytes
		b := make([]byte, g.intn(6))
		for i := range b {
			b[i] = byte(g.intn(256))
		}
		s = string(b)
	case 3: // structured: lead byte + random continuation-ish bytes
		leads := []byte{0xC0, 0xC1, 0xC2, 0xDF, 0xE0, 0xE1, 0xEC, 0xED, 0xEE, 0xEF, 0xF0, 0xF1, 0xF3, 0xF4, 0xF5, 0xF7, 0xF8, 0xFF}
		b := []byte{leads[g.intn(len(leads))]}
		for i, n := 0, g.intn(4); i < n; i++ {
			cs := []byte{0x7F, 0x80, 0x8F, 0x90, 0x9F, 0xA0, 0xBF, 0xC0, byte(0x80 + g.intn(0x40))}
			b = append(b, cs[g.intn(len(cs))])
		}
		s = string(b)
	case 4: // hand-made encodings of arbitrary 21-bit values (overlong, surrogate, > max)
		v := uint32(g.intn(0x200000))
		if g.chance(0.3) {
			v = uint32([]int{0, 0x7F, 0x80, 0x7FF, 0x800, 0xD7FF, 0xD800, 0xDFFF, 0xE000, 0xFFFF, 0x10000, 0x10FFFF, 0x110000, 0x1FFFFF}[g.intn(14)])
		}
		switch g.intn(3) {
		case 0:
			s = string([]byte{0xC0 | byte(v>>6)&0x1F, 0x80 | byte(v)&0x3F})
		case 1:
			s = string([]byte{0xE0 | byte(v>>12)&0x0F, 0x80 | byte(v>>6)&0x3F, 0x80 | byte(v)&0x3F})
		default:
			s = string([]byte{0xF0 | byte(v>>18)&0x07, 0x80 | byte(v>>12)&0x3F, 0x80 | byte(v>>6)&0x3F, 0x80 | byte(v)&0x3F})
		}
		if g.chance(0.2) {
			s = s[:len(s)-1]
		}
	default:
		s = g.randomBytes(3)
	}
	return kase{"rune " + hx(s), ansRune(s)}
}

func (g *gen) classCase() kase {
	var n int
	switch g.intn(6) {
	case 0:
		n = g.intn(0x110000)
	case 1:
		n = g.intn(0x3000)
	case 2:
		n = int(runesOfInterest[g.intn(len(runesOfInterest))])
	case 3:
		n = 0x10FFFF - 3 + g.intn(0x1000) // beyond the last rune
	default: // walk to a boundary of one of the predicates
		n = g.intn(0x110000)
		preds := []func(rune) bool{strconv.IsPrint, unicode.IsLetter, unicode.IsNumber}
		p := preds[g.intn(3)]
		v := p(rune(n))
		for i := 0; i < 3000 && n < 0x10FFFF && p(rune(n+1)) == v; i++ {
			n++
		}
		n += g.intn(2)
	}
	switch g.intn(3) {
	case 0:
		return kase{fmt.Sprintf("isprint %d", n), ansIsPrint(n)}
	case 1:
		return kase{fmt.Sprintf("isL %d", n), ansIsL(n)}
	default:
		return kase{fmt.Sprintf("isN %d", n), ansIsN(n)}
	}
}

// ---- unquote ---------------------------------------------------------------

var unquoteFixed = []string{
	"", "\"", "'", "`", "\"\"", "''", "``", "\"'", "'\"", "`\"", "\"`", "'''", "\"\"\"", "```", "''''", "'\\''", "'\\\"'",
	"\"\\\"\"", "\"\\'\"", "'\"'", "\"'\"", "'ab'", "'a'", "'a' ", " 'a'", "'é'", "'世'", "'\xff'", "'\xc3'", "'\xe4\xb8'",
	"'\xed\xa0\x80'", "'\\xff'", "'\\377'", "'\\400'", "'\\u00e9'", "'\\U0010FFFF'", "'\\U00110000'", "'\\ud800'", "'\\udfff'",
	"'\\ue000'", "'\\n'", "'\n'", "'\\", "'\\'", "'\\x4'", "'\\x41'", "'\\x411'", "'\\0'", "'\\00'", "'\\000'", "'\\08'",
	"\"\\", "\"\\\"", "\"abc", "abc\"", "\"abc\"x", "\"abc\"\"", "\"a\"b\"", "\"a\nb\"", "\"a\\nb\"", "\"a\rb\"", "\"a\tb\"",
	"\"\\a\\b\\f\\n\\r\\t\\v\\\\\\\"\"", "\"\\q\"", "\"\\ \"", "\"\\8\"", "\"\\9\"", "\"\\x\"", "\"\\x4\"", "\"\\xZZ\"", "\"\\x4g\"",
	"\"\\xFf\"", "\"\\u12\"", "\"\\u123\"", "\"\\u1234\"", "\"\\u12345\"", "\"\\uD800\"", "\"\\uDFFF\"", "\"\\uD7FF\"", "\"\\uE000\"",
	"\"\\ufffd\"", "\"\\U0001F600\"", "\"\\U0010ffff\"", "\"\\U00110000\"", "\"\\UFFFFFFFF\"", "\"\\U0000D800\"", "\"\\U1234567\"",
	"\"\\400\"", "\"\\377\"", "\"\\378\"", "\"\\37\"", "\"\\3\"", "\"\\000\"", "\"\\777\"", "\"\\1234\"", "\"\\x00\"", "\"\\x80\"",
	"\"\\xe4\\xb8\\x96\"", "\"\xe4\xb8\x96\"", "\"\xff\"", "\"a\xffb\"", "\"\xc3\"", "\"\xc3\\n\"", "\"\xe4\xb8\"", "\"\xed\xa0\x80\"",
	"\"\xf4\x90\x80\x80\"", "\"\xc0\x80\"", "\"\\u0041\"", "\"\\u00e9\"", "\"\\101\"", "\"\\x41\\u0041\\U00000041\\101A\"",
	"`abc`", "`a\rb`", "`\r`", "`\r\r\r`", "`a\\nb`", "`a\nb`", "`a`b`", "`a``", "`\xff\xfe`", "`\"'`", "`abc", "abc`", "`abc`x",
	"`\x00`", "a", "ab", "aa", "aba", "  ", "\n\n", "\\\\", "\"\xef\xbf\xbd\"", "'\xef\xbf\xbd'", "'\\ufffd'", "\"\\'\"", "'\\\"'",
	"\"'\\\"'\"", "\"\\x22\"", "'\\x27'", "'\\047'", "\"\\042\"", "\"\x00\"", "\"\x7f\"", "\"\\\n\"", "\"a\\\nb\"", "'\\\n'",
}

// escapePiece returns one escape sequence, well-formed with probability okP.
func (g *gen) escapePiece(quote byte, okP float64) string {
	hexd := func(n int) string {
		const hd = "0123456789abcdefABCDEF"
		b := make([]byte, n)
		for i := range b {
			b[i] = hd[g.intn(len(hd))]
		}
		return string(b)
	}
	if g.chance(okP) {
		switch g.intn(8) {
		case 0:
			return "\\" + string("abfnrtv\\"[g.intn(8)])
		case 1:
			return "\\" + string(quote)
		case 2:
			return "\\x" + hexd(2)
		case 3:
			return fmt.Sprintf("\\u%04x", g.anyRuneBMP())
		case 4:
			return fmt.Sprintf("\\U%08X", g.anyRune())
		case 5:
			return fmt.Sprintf("\\%03o", g.intn(256))
		case 6:
			return "\\u" + hexd(4) // may hit a surrogate
		default:
			return fmt.Sprintf("\\U00%s", hexd(6)) // may exceed 10FFFF
		}
	}
	bad := []string{
		"\\q", "\\ ", "\\8", "\\9", "\\x", "\\x4", "\\xg0", "\\x0g", "\\u", "\\u1", "\\u12", "\\u123", "\\u12g4", "\\ud800", "\\udbff",
		"\\udc00", "\\udfff", "\\U", "\\U0011", "\\U00110000", "\\U0000d800", "\\UFFFFFFFF", "\\U80000000", "\\400", "\\777", "\\40",
		"\\4", "\\08", "\\0a", "\\", "\\\n", "\\X41", "\\N", "\\e", "\\0", "\\?", "\\`",
	}
	s := g.pick(bad)
	if g.chance(0.3) {
		other := byte('"')
		if quote == '"' {
			other = '\''
		}
		s = "\\" + string(other)
	}
	return s
}

func (g *gen) anyRuneBMP() rune {
	for {
		r := g.anyRune()
		if r < 0x10000 {
			return r
		}
	}
}

func (g *gen) quotedBody(quote byte, parts int, okP float64) string {
	var sb strings.Builder
	for i := 0; i < parts; i++ {
		switch g.intn(12) {
		case 0, 1, 2, 3:
			c := byte(0x20 + g.intn(0x5F))
			if (c == quote || c == '\\') && g.chance(okP) {
				c = 'a'
			}
			sb.WriteByte(c)
		case 4, 5:
			r := g.anyRune()
			if (r == rune(quote) || r == '\\' || r == '\n') && g.chance(okP) {
				r = 'b'
			}
			sb.WriteRune(r)
		case 6, 7, 8:
			sb.WriteString(g.escapePiece(quote, okP))
		case 9:
			if !g.chance(okP) {
				sb.WriteString(g.pick(badUTF8))
			} else {
				sb.WriteByte('c')
			}
		case 10:
			if !g.chance(okP) {
				sb.WriteString(g.pick([]string{"\n", string(quote), "\r", "\x00", "\\"}))
			} else {
				other := "'"
				if quote == '\'' {
					other = "\""
				}
				sb.WriteString(other)
			}
		default:
			sb.WriteByte(byte(g.intn(0x20)))
		}
	}
	return sb.String()
}

func (g *gen) unquoteString() string {
	p := g.intn(100)
	switch {
	case p < 15:
		return g.pick(unquoteFixed)
	case p < 45: // double quoted
		okP := 0.97
		if g.chance(0.4) {
			okP = 0.7
		}
		return "\"" + g.quotedBody('"', g.intn(10), okP) + "\""
	case p < 60: // single quoted: usually one piece
		okP := 0.9
		n := 1
		if g.chance(0.2) {
			n = g.intn(4)
		}
		return "'" + g.quotedBody('\'', n, okP) + "'"
	case p < 70: // raw
		s := g.randomBytes(8)
		if g.chance(0.85) {
			s = strings.ReplaceAll(s, "`", "'")
		}
		if g.chance(0.4) {
			i := g.intn(len(s) + 1)
			s = s[:i] + "\r" + s[i:]
		}
		return "`" + s + "`"
	case p < 78: // result of the real Quote (round trip) on random bytes
		return strconv.Quote(g.randomBytes(8))
	case p < 82:
		return strconv.QuoteRune(g.anyRune())
	case p < 92: // damage a well-formed literal
		var s string
		switch g.intn(3) {
		case 0:
			s = "\"" + g.quotedBody('"', g.intn(8), 1) + "\""
		case 1:
			s = "'" + g.quotedBody('\'', 1, 1) + "'"
		default:
			s = "`" + strings.ReplaceAll(g.randomBytes(6), "`", "") + "`"
		}
		switch g.intn(5) {
		case 0:
			if len(s) > 0 {
				s = s[:len(s)-1]
			}
		case 1:
			s = s[1:]
		case 2:
			s += g.pick([]string{"x", "\"", "'", "`", " ", "\n"})
		case 3:
			s = g.mutate(s, "\"'`\\\nxuU0123456789abcdefg\r\xff\x80")
		default:
			q := []byte(s)
			q[len(q)-1] = "\"'`"[g.intn(3)]
			s = string(q)
		}
		return s
	default: // token soup
		const alpha = "\"\"''``\\\\nrtxuU01234567890abcdefAF\n\r \xff\x80\xc3\xa9\xe4\xb8\x96"
		n := g.intn(10)
		b := make([]byte, n)
		for i := range b {
			b[i] = alpha[g.intn(len(alpha))]
		}
		q := "\"'`"[g.intn(3)]
		if g.chance(0.7) {
			return string(q) + string(b) + string(q)
		}
		return string(b)
	}
}

func (g *gen) unquoteCase() kase {
	s := g.unquoteString()
	return kase{"unquote " + hx(s), ansUnquote(s)}
}
