package main

import (
	"fmt"
	"math"
	"math/big"
	"strconv"
	"strings"
)

var floatFixed = []string{
	// specials and near misses
	"inf", "Inf", "INF", "iNf", "+inf", "-inf", "+Inf", "-INF", "infinity", "Infinity", "INFINITY",
	"-infinity", "+Infinity", "-iNfInItY", "infi", "infin", "infini", "infinit", "infinityy", "infinity ",
	"infx", "inf0", "in", "i", "I", "+i", "-in", "+", "-", "++inf", "+-inf", "--inf", "inf+", " inf",
	"nan", "NaN", "NAN", "nAn", "+nan", "-nan", "+NaN", "-NaN", "nanx", "nan0", "nann", "na", "n", "N", "nan ",
	// syntax corner cases
	"", ".", "e", "E", "e1", ".e1", "1e", "1e+", "1e-", "1E", "1e+-1", "1e--1", "1ee1", "1e1e1", "1e1.5",
	"1.5.5", "1..5", "..5", ".5", "5.", "-.5", "+5.", "+.5e1", "-5.e-1", ".", "-.", "+.", "-.e1", "0.", ".0",
	"-0", "+0", "-0.0", "-0e0", "-0e-999", "-.0", "0e0", "0e999999", "0e-999999", "-0e999999", "00", "00.00", "000e000",
	"0x", "0X", "-0x", "0x.", "0x.p1", "0xp1", "0x1", "0x1.", "0x1.8", "0x1p", "0x1p+", "0x1p-", "0x1pp1",
	"0x1p1p1", "0x1p1.5", "0x.8p1", "0x8.p1", "0x0p0", "-0x0p0", "0x0.p0", "0x.0p0", "-0x.0p-5", "00x1p0",
	"0x1P5", "0X1p5", "0X1P-5", "0x1e3", "0x1e3p0", "0x1E3P0", "0xep0", "0x.ep0", "0xe.p0", "0x1p0x1", "0x1.8p3",
	"0x1.8P+3", "-0x1.8p-3", "+0x1.8p3", "0xabcdefp0", "0xABCDEFp0", "0xgp0", "0x1gp0", "0x1p0g", "0x 1p0",
	"1p3", "1.5p3", "1x", "x1", " 1", "1 ", "1\n", "1\x00", "\x001", "1,5", "1'000", "１", "1e１",
	// underscores
	"1_000.5", "1_000.5_5", "1_000.5e1_0", "0x_1p0", "0x1_0p1_0", "0x_1_.8p0", "0x1._8p0", "0x1.8_p0", "0x1.8p_0",
	"0x1.8p0_", "1__0", "_1", "1_", "_1_", "1_.5", "1._5", "1.5_", "1.5_e1", "1e_5", "1e5_", "1e1_0", "1e+1_0",
	"1e+_10", "1_e5", "1_0e5", "1_0.0_1e0_1", "0_1", "0_1.5", "0_.5", "-1_0", "+1_0", "-_1", "1__0.5", "1_0._5",
	"_", "__", "_.5", "._5", "0x_", "0x_p0", "0_x1p0", "0x1p-_1", "0x1p-1_", "0x1p-1_0", "1_0e-1_0", "1e0_0_5",
	"inf_", "i_nf", "na_n", "1_2_3_4_5_6_7_8_9_0_1_2_3_4_5_6_7_8_9_0_1_2_3", "0x1_2_3_4_5_6_7_8_9_a_b_c_d_e_f_0_1_2p0",
	// exponents
	"1e0", "1E5", "1e+5", "1e-5", "1e05", "1e0000000005", "1e-0000000005", "1e308", "1e309", "1e-323", "1e-324",
	"1e-325", "1e400", "-1e400", "1e-400", "-1e-400", "1e38", "1e39", "3e38", "4e38", "1e-45", "1e-46", "7e-46",
	"8e-46", "1e9999", "1e10000", "1e99999", "1e100000", "1e-10000", "1e-99999", "1e-100000", "1e999999999999999999999",
	"1e-999999999999999999999", "0.1e99999", "10e-100000", "0e100000", "0x1p9999", "0x1p10000", "0x1p-99999",
	"0x1p1023", "0x1p1024", "-0x1p1024", "0x1p-1022", "0x1p-1023", "0x1p-1074", "0x1p-1075", "0x1.8p-1075",
	"0x1.0000000000001p-1075", "0x1p-1076", "0x1p127", "0x1p128", "0x1p-126", "0x1p-127", "0x1p-149", "0x1p-150",
	"0x1.8p-150", "0x1.000001p-150", "0x1p-151", "0x0.8p-149", "0x0.000002p-126",
	// famous / threshold decimals
	"1.7976931348623157e308", "1.7976931348623158e308", "1.7976931348623159e308", "1.797693134862315807e308",
	"1.797693134862315808e308", "1.797693134862315708145274237317043567981e+308",
	"1.797693134862315808e+308", "179769313486231570814527423731704356798070567525844996598917476803157260780028538760589558632766878171540458953514382464234321326889464182768467546703537516986049910576551282076245490090389328944075868508455133942304583236903222948165808559332123348274797826204144723168738177180919299881250404026184124858368",
	"179769313486231580793728971405303415079934132710037826936173778980444968292764750946649017977587207096330286416692887910946555547851940402630657488671505820681908902000708383676273854845817711531764475730270069855571366959622842914819860834936475292719074168444365510704342711559699508093042880177904174497791",
	"179769313486231580793728971405303415079934132710037826936173778980444968292764750946649017977587207096330286416692887910946555547851940402630657488671505820681908902000708383676273854845817711531764475730270069855571366959622842914819860834936475292719074168444365510704342711559699508093042880177904174497792",
	"-1.7976931348623159e308", "1.8e308", "2e308",
	"3.4028234e38", "3.4028235e38", "3.4028236e38", "3.4028234663852886e38", "3.4028235677973366e38",
	"3.40282356779733661637539395458142568447e38", "3.40282356779733661637539395458142568448e38",
	"3.40282356779733661637539395458142568449e38", "340282356779733661637539395458142568448", "340282346638528859811704183484516925440",
	"-3.4028236e38", "3.5e38",
	"4.9e-324", "5e-324", "4.9406564584124654e-324", "2.4703282292062327e-324", "2.4703282292062328e-324",
	"2.47032822920623272088284396434110686182e-324", "2.4703282292062327208828439643411e-324", "2.5e-324", "2.4e-324", "3e-324",
	"2.2250738585072011e-308", "2.2250738585072012e-308", "2.2250738585072014e-308", "2.2250738585072009e-308",
	"2.225073858507201136057409796709131975934819546351645648023426109724822222021076945516529523908135087914149158913039621106870086438694594645527657207407820621743379988141063267329253552286881372149012981122451451889849057222307285255133155755015914397476397983411801999323962548289017107081850690630666655994938275772572015763062690663332647565300009245888316433037779791869612049497390377829704905051080609940730262937128958950003583799967207254304360284078895771796150945516748243471030702609144621572289880258182545180325707018860872113128079512233426288368622321503775666622503982534335974568884423900265498198385487948292206894721689831099698365846814022854243330660339850886445804001034933970427567186443383770486037861622771738545623065874679014086723327636718751234567890123456789012345678901234567890e-308",
	"1.1754943508222875e-38", "1.1754942e-38", "1.1754944e-38", "1.401298464324817e-45", "1.4e-45", "7.006492321624085e-46",
	"7.0064923216240853546186479164495806564013097093825788587853e-46", "7.0064923216240853546186479164495806564013097093825788587854e-46",
	"7.0064923216240853546186479164495806564013097093825788587852e-46", "7.1e-46", "7e-46",
	"0.1", "0.2", "0.3", "1.1", "16777216", "16777217", "16777218", "16777219", "9007199254740992", "9007199254740993",
	"9007199254740994", "9007199254740995", "9007199254740993.0000000000000000000000000000000000000000001",
	"9007199254740992.9999999999999999999999999999999999999999999", "1.00000005960464477539062500000000000000000000001",
	"1.000000059604644775390625", "1.00000005960464477539062499999999999999", "1.0000001788139343261718750",
	"1.00000000000000011102230246251565404236316680908203125", "1.00000000000000011102230246251565404236316680908203126",
	"1.00000000000000011102230246251565404236316680908203124", "1.00000000000000033306690738754696212708950042724609375",
	"123456789012345678901234567890", "0.000000000000000000000000000001", "1" + strings.Repeat("0", 400), "0." + strings.Repeat("0", 400) + "1",
	"1" + strings.Repeat("0", 400) + "e-400", "0." + strings.Repeat("0", 400) + "1e401", strings.Repeat("9", 900), strings.Repeat("9", 310),
	strings.Repeat("9", 309), strings.Repeat("9", 308), "0." + strings.Repeat("9", 900), strings.Repeat("0", 900) + "1", "1." + strings.Repeat("0", 900) + "1",
	// hex rounding
	"0x1.00000000000008p0", "0x1.000000000000081p0", "0x1.00000000000007fp0", "0x1.00000000000018p0", "0x1.0000000000000800000000000000001p0",
	"0x1.fffffffffffff8p1023", "0x1.fffffffffffff7p1023", "0x1.fffffffffffff7ffffffffffffffp1023", "0x1.fffffffffffffp1023",
	"0x1.000001p0", "0x1.0000010p0", "0x1.0000011p0", "0x1.000003p0", "0x1.ffffffp127", "0x1.fffffefp127", "0x1.fffffep127",
	"0x1.fffffeffffffffffffp127", "0x0.0000000000001p-1022", "0x0.00000000000008p-1022", "0x0.00000000000018p-1022",
	"0x0.fffffffffffff8p-1022", "0x0.fffffffffffffp-1022", "0x0.ffffffp-126", "0x0.fffffep-126", "0x0.fffffdp-126",
	"0x123456789abcdef01p0", "0x123456789abcdef012345p-80", "0x0000000000000000000001p0", "0x0.00000000000000000000001p100",
	"0x10000000000000000p-64", "0x8000000000000000p-63", "0xffffffffffffffffp0", "0xffffffffffffffffffffp0", "0x1fffffffffffffp0", "0x3fffffffffffffp0",
	"0x20000000000001p0", "0x20000000000002p0", "0x20000000000003p0", "0x1ffffffp0", "0x2000001p0", "0x2000002p0", "0x2000003p0",
}

// exactDec returns digits D and a count k such that m*2^e = D * 10^-k exactly.
func exactDec(m *big.Int, e int) (string, int) {
	if e >= 0 {
		return new(big.Int).Lsh(m, uint(e)).String(), 0
	}
	p := new(big.Int).Exp(big.NewInt(5), big.NewInt(int64(-e)), nil)
	return new(big.Int).Mul(m, p).String(), -e
}

// render writes the decimal D * 10^-k in one of several notations.
func (g *gen) render(d string, k int) string {
	switch g.intn(4) {
	case 0: // plain
		if k == 0 {
			if g.chance(0.3) {
				return d + "."
			}
			return d
		}
		if k >= len(d) {
			lead := "0."
			if g.chance(0.2) {
				lead = "."
			}
			return lead + strings.Repeat("0", k-len(d)) + d
		}
		return d[:len(d)-k] + "." + d[len(d)-k:]
	case 1: // scientific d.ddd e X
		x := len(d) - 1 - k
		es := g.pick([]string{"e", "E"})
		sign := ""
		if x >= 0 && g.chance(0.3) {
			sign = "+"
		}
		if len(d) == 1 {
			return d + es + sign + strconv.Itoa(x)
		}
		return d[:1] + "." + d[1:] + es + sign + strconv.Itoa(x)
	case 2: // integer mantissa with exponent
		return d + "e" + strconv.Itoa(-k)
	default: // 0.ddd e X
		x := len(d) - k
		return "0." + d + "e" + strconv.Itoa(x)
	}
}

// perturb nudges the decimal D*10^-k by an amount far below its last digit:
// dir 0 keeps it, +1 appends zeros and a 1, -1 decrements D and appends nines.
func (g *gen) perturb(d string, k int, dir int) (string, int) {
	far := g.between(0, 40)
	switch dir {
	case 1:
		tail := strings.Repeat("0", far) + strconv.Itoa(g.between(1, 9))
		return d + tail, k + len(tail)
	case -1:
		n, _ := new(big.Int).SetString(d, 10)
		if n.Sign() == 0 {
			return d, k
		}
		n.Sub(n, big.NewInt(1))
		s := n.String()
		// keep the digit count so that k stays valid
		if len(s) < len(d) {
			s = strings.Repeat("0", len(d)-len(s)) + s
		}
		tail := strings.Repeat("9", far+1)
		return s + tail, k + len(tail)
	}
	if g.chance(0.3) { // trailing zeros do not change the value
		z := g.between(1, 30)
		return d + strings.Repeat("0", z), k + z
	}
	return d, k
}

// randBits returns a finite, non-negative bit pattern of the given width with
// an exponent class chosen to hit subnormals, extremes and the middle.
func (g *gen) randBits(width int) (m *big.Int, e int, bits uint64) {
	mantBits, expMax, minE := 52, 2046, -1074
	if width == 32 {
		mantBits, expMax, minE = 23, 254, -149
	}
	var ex int
	switch g.intn(10) {
	case 0:
		ex = 0
	case 1:
		ex = g.between(0, 2)
	case 2:
		ex = expMax - g.intn(2)
	case 3:
		ex = (expMax+1)/2 + g.between(-3, 60) // around 1.0 .. 1e18
	default:
		ex = g.between(0, expMax)
	}
	var frac uint64
	switch g.intn(8) {
	case 0:
		frac = 0
	case 1:
		frac = 1<<uint(mantBits) - 1
	case 2:
		frac = uint64(g.intn(4))
	case 3:
		frac = 1<<uint(mantBits) - 1 - uint64(g.intn(4))
	default:
		frac = g.r.Uint64() & (1<<uint(mantBits) - 1)
	}
	bits = uint64(ex)<<uint(mantBits) | frac
	if ex == 0 {
		return new(big.Int).SetUint64(frac), minE, bits
	}
	return new(big.Int).SetUint64(1<<uint(mantBits) | frac), minE + ex - 1, bits
}

// tieDecimal builds a decimal string at (or a hair away from) the midpoint
// between a random float of the given width and its upper neighbour.
func (g *gen) tieDecimal(width int) string {
	m, e, _ := g.randBits(width)
	var d string
	var k int
	if g.chance(0.85) {
		mid := new(big.Int).Lsh(m, 1)
		mid.Add(mid, big.NewInt(1))
		d, k = exactDec(mid, e-1)
	} else { // the float itself
		d, k = exactDec(m, e)
	}
	d, k = g.perturb(d, k, g.between(-1, 1))
	s := g.render(d, k)
	if g.chance(0.3) {
		s = "-" + s
	} else if g.chance(0.1) {
		s = "+" + s
	}
	return s
}

// tieHex builds a hex-float string at or near a midpoint.
func (g *gen) tieHex(width int) string {
	m, e, _ := g.randBits(width)
	mid := new(big.Int).Lsh(m, 1)
	if g.chance(0.85) {
		mid.Add(mid, big.NewInt(1))
	}
	e--
	// Optionally scale by 16^j so that the digits move relative to the point.
	digits := mid.Text(16)
	switch g.intn(3) {
	case 0: // sticky digits far to the right
		z := g.between(0, 12)
		digits += strings.Repeat("0", z) + g.pick([]string{"1", "8", "f", "0"})
		e -= 4 * (z + 1)
	case 1: // just below: subtract one and append f's
		if mid.Sign() > 0 {
			n := new(big.Int).Sub(mid, big.NewInt(1))
			digits = n.Text(16)
			if len(digits) < len(mid.Text(16)) {
				digits = strings.Repeat("0", len(mid.Text(16))-len(digits)) + digits
			}
			z := g.between(1, 14)
			digits += strings.Repeat("f", z)
			e -= 4 * z
		}
	}
	if g.chance(0.3) {
		digits = strings.ToUpper(digits)
	}
	if g.chance(0.2) {
		digits = strings.Repeat("0", g.between(1, 5)) + digits
	}
	// place a point somewhere: value = digits * 2^e = (digits with j frac digits) * 2^(e+4j)
	if g.chance(0.6) {
		j := g.intn(len(digits) + 1)
		digits = digits[:len(digits)-j] + "." + digits[len(digits)-j:]
		e += 4 * j
	}
	p := g.pick([]string{"p", "P"})
	es := strconv.Itoa(e)
	if e >= 0 && g.chance(0.3) {
		es = "+" + es
	}
	s := g.pick([]string{"0x", "0X"}) + digits + p + es
	if g.chance(0.3) {
		s = "-" + s
	}
	return s
}

func (g *gen) randDigits(n int) string {
	b := make([]byte, n)
	for i := range b {
		b[i] = byte('0' + g.intn(10))
	}
	return string(b)
}

// interestingExp10 returns a decimal exponent for a value whose leading digit
// has the given position, concentrated near the format limits.
func (g *gen) interestingExp10() int {
	switch g.intn(8) {
	case 0:
		return g.between(305, 312)
	case 1:
		return g.between(-330, -318)
	case 2:
		return g.between(-312, -304)
	case 3:
		return g.between(35, 41)
	case 4:
		return g.between(-49, -42)
	case 5:
		return g.between(-40, -35)
	case 6:
		return g.between(-420, 420)
	default:
		return g.between(-25, 25)
	}
}

func (g *gen) randomDecimal() string {
	n := g.between(1, 40)
	if g.chance(0.15) {
		n = g.between(30, 800)
	} else if g.chance(0.03) {
		n = g.between(801, 1600)
	}
	d := g.randDigits(n)
	if g.chance(0.1) {
		d = strings.Repeat("0", g.between(1, 5)) + d
	}
	x := g.interestingExp10() // desired magnitude: value ≈ 0.d × 10^x
	switch g.intn(3) {
	case 0: // d.ddd e (x-1)
		s := d[:1]
		if len(d) > 1 {
			s += "." + d[1:]
		}
		return s + g.pick([]string{"e", "E"}) + strconv.Itoa(x-1)
	case 1: // integer mantissa
		return d + "e" + strconv.Itoa(x-len(d))
	default: // point at a random place
		j := g.intn(len(d) + 1)
		s := d[:j] + "." + d[j:]
		ex := x - j
		if ex == 0 && g.chance(0.5) {
			return s
		}
		return s + "e" + strconv.Itoa(ex)
	}
}

func (g *gen) randomHex() string {
	n := g.between(1, 24)
	const hd = "0123456789abcdefABCDEF"
	b := make([]byte, n)
	for i := range b {
		b[i] = hd[g.intn(len(hd))]
	}
	d := string(b)
	if g.chance(0.6) {
		j := g.intn(len(d) + 1)
		d = d[:j] + "." + d[j:]
	}
	var e int
	switch g.intn(6) {
	case 0:
		e = g.between(-1100, -1060)
	case 1:
		e = g.between(1000, 1030)
	case 2:
		e = g.between(-160, -120)
	case 3:
		e = g.between(100, 130)
	case 4:
		e = g.between(-1300, 1300)
	default:
		e = g.between(-70, 70)
	}
	return g.pick([]string{"0x", "0X"}) + d + g.pick([]string{"p", "P"}) + strconv.Itoa(e)
}

func (g *gen) shortest(width int) string {
	_, _, bits := g.randBits(width)
	var f float64
	if width == 32 {
		f = float64(math.Float32frombits(uint32(bits)))
	} else {
		f = math.Float64frombits(bits)
	}
	if g.chance(0.3) {
		f = -f
	}
	fm := []byte{'g', 'e', 'f', 'G', 'E', 'x', 'X'}[g.intn(7)]
	prec := -1
	if g.chance(0.4) {
		prec = g.between(0, 25)
	}
	if fm == 'f' && math.Abs(f) > 1e60 && prec > 0 {
		prec = -1
	}
	return strconv.FormatFloat(f, fm, prec, width)
}

func (g *gen) floatString(width int) string {
	p := g.intn(100)
	switch {
	case p < 14:
		return g.pick(floatFixed)
	case p < 44:
		return g.tieDecimal(width)
	case p < 56:
		return g.tieHex(width)
	case p < 70:
		return g.randomDecimal()
	case p < 78:
		return g.randomHex()
	case p < 86:
		return g.shortest(width)
	case p < 90: // a tie for the OTHER width
		return g.tieDecimal(96 - width)
	default: // near-miss: one random edit of something valid
		base := g.pick(floatFixed)
		switch g.intn(4) {
		case 0:
			base = g.shortest(width)
		case 1:
			base = g.randomHex()
		case 2:
			base = g.randomDecimal()
			if len(base) > 60 {
				base = base[:60]
			}
		}
		return g.mutate(base, "0123456789abcdefxXpPeE._+-infatyINFATY ")
	}
}

// longIntPart reports whether s is a decimal (non-hex) literal whose mantissa has
// more than 800 digits between its first non-zero digit and the decimal point
// (or the end of the mantissa).  For such inputs go1.23.5's slow path
// (`decimal.set`) computes `dp = nd` from a digit count that is capped at 800, so
// whenever the Eisel-Lemire fast path declines, the result is off by a power of
// ten — e.g. ParseFloat("1"+800 zeros+"e-791", 64) returns 1e8 instead of 1e9.
// The Lean model returns the correctly rounded value; these inputs are outside
// the domain on which model and library agree and are generated only with
// -bug800.
func longIntPart(s string) bool {
	i := 0
	if i < len(s) && (s[i] == '+' || s[i] == '-') {
		i++
	}
	if i+1 < len(s) && s[i] == '0' && (s[i+1] == 'x' || s[i+1] == 'X') {
		return false
	}
	n := 0
	for ; i < len(s); i++ {
		c := s[i]
		switch {
		case c == '_':
		case c >= '0' && c <= '9':
			if c != '0' || n > 0 {
				n++
			}
		default:
			return n > 800
		}
	}
	return n > 800
}

var allowBug800 = false

func (g *gen) floatCase() kase {
	width := 64
	if g.chance(0.45) {
		width = 32
	}
	s := g.floatString(width)
	for !allowBug800 && longIntPart(s) {
		s = g.floatString(width)
	}
	return kase{fmt.Sprintf("float %d %s", width, hx(s)), ansFloat(s, width)}
}

// ---- conversions -----------------------------------------------------------

func (g *gen) convCase() kase {
	if g.chance(0.35) { // widen
		var b uint32
		switch g.intn(6) {
		case 0:
			b = g.r.Uint32()
		case 1: // NaN payloads, quiet and signalling
			b = 0x7F800000 | g.r.Uint32()&0x7FFFFF
		case 2:
			b = []uint32{0, 0x80000000, 0x7F800000, 0xFF800000, 1, 0x007FFFFF, 0x00800000, 0x7F7FFFFF, 0x7FC00000, 0x7F800001, 0xFFC00001}[g.intn(11)]
		case 3: // subnormals
			b = g.r.Uint32() & 0x807FFFFF
		default:
			_, _, x := g.randBits(32)
			b = uint32(x)
		}
		if g.chance(0.3) {
			b ^= 0x80000000
		}
		return kase{fmt.Sprintf("f32to64 %d", b), ansF32to64(b)}
	}
	var b uint64
	switch g.intn(8) {
	case 0:
		b = g.r.Uint64()
	case 1: // NaNs
		b = 0x7FF0000000000000 | g.r.Uint64()&(1<<52-1)
		if g.chance(0.3) {
			b &^= 1<<52 - 1
			b |= uint64(g.intn(1 << 10)) // payload that is shifted out entirely
			if b&(1<<52-1) == 0 {
				b |= 1
			}
		}
	case 2:
		b = []uint64{0, 1 << 63, 0x7FF0000000000000, 0xFFF0000000000000, 1, 0x000FFFFFFFFFFFFF, 0x0010000000000000,
			0x7FEFFFFFFFFFFFFF, 0x7FF8000000000001, 0x7FF0000000000001, 0x47EFFFFFE0000000, 0x47EFFFFFEFFFFFFF,
			0x47EFFFFFF0000000, 0x47EFFFFFF0000001, 0x47F0000000000000, 0x36A0000000000000, 0x36A0000000000001,
			0x3690000000000000, 0x369FFFFFFFFFFFFF, 0x3810000000000000, 0x380FFFFFFFFFFFFF, 0x380FFFFFF0000000}[g.intn(22)]
	case 3, 4, 5: // a float32 value, widened, plus/minus about half a float32 ulp
		_, _, x := g.randBits(32)
		w := math.Float64bits(float64(math.Float32frombits(uint32(x))))
		switch g.intn(5) {
		case 0:
			w += 1 << 28 // exact tie (for normal float32 results)
		case 1:
			w += 1<<28 + uint64(g.intn(3)) - 1
		case 2:
			w += uint64(g.r.Int63n(1 << 29))
		case 3:
			w -= uint64(g.intn(3))
		}
		b = w
	case 6: // float32 subnormal range: exponents 2^-150 .. 2^-126
		ex := uint64(1023 - 152 + g.intn(28))
		frac := g.r.Uint64() & (1<<52 - 1)
		if g.chance(0.5) { // few significant bits → ties in the subnormal range
			frac &= ^uint64(0) << uint(52-g.intn(26))
		}
		b = ex<<52 | frac
	default: // around float32 overflow
		ex := uint64(1023 + 126 + g.intn(4))
		b = ex<<52 | g.r.Uint64()&(1<<52-1)
		if g.chance(0.5) {
			b |= 0xFFFFFF << 28
		}
	}
	if g.chance(0.3) {
		b ^= 1 << 63
	}
	return kase{fmt.Sprintf("f64to32 %d", b), ansF64to32(b)}
}
