package main

import (
	"fmt"
	"math/big"
	"strings"
)

var boolWords = []string{
	"1", "t", "T", "TRUE", "true", "True", "0", "f", "F", "FALSE", "false", "False",
	"", "tRUE", "TRue", "fALSE", "yes", "no", "2", "00", "01", "tr", "truee", " true", "true ",
	"T ", "FALSe", "false\x00", "\x00", "y", "n", "on", "off", "10", "-1", "+1", "ｔ", "tru\xe9",
}

func (g *gen) boolCase() kase {
	s := g.pick(boolWords)
	if g.chance(0.2) {
		s = g.mutate(s, "tTrRuUeEfFaAlLsS01 ")
	}
	return kase{"bool " + hx(s), ansBool(s)}
}

// mutate applies one random byte edit drawn from alphabet.
func (g *gen) mutate(s, alphabet string) string {
	b := []byte(s)
	c := alphabet[g.intn(len(alphabet))]
	switch g.intn(4) {
	case 0: // insert
		i := g.intn(len(b) + 1)
		b = append(b[:i], append([]byte{c}, b[i:]...)...)
	case 1: // delete
		if len(b) > 0 {
			i := g.intn(len(b))
			b = append(b[:i], b[i+1:]...)
		}
	case 2: // replace
		if len(b) > 0 {
			b[g.intn(len(b))] = c
		}
	default: // swap neighbours
		if len(b) > 1 {
			i := g.intn(len(b) - 1)
			b[i], b[i+1] = b[i+1], b[i]
		}
	}
	return string(b)
}

var intBitSizes = []int{8, 16, 32, 64, 0}

func (g *gen) bitSize() int {
	if g.chance(0.08) {
		return g.between(1, 64)
	}
	return intBitSizes[g.intn(len(intBitSizes))]
}

func (g *gen) intBase() int {
	p := g.intn(100)
	switch {
	case p < 40:
		return 0
	case p < 65:
		return 10
	case p < 75:
		return 16
	case p < 80:
		return 2
	case p < 85:
		return 8
	case p < 90:
		return 36
	default:
		return g.between(2, 36)
	}
}

var intFixed = []string{
	"", "+", "-", "0", "00", "000", "-0", "+0", "--1", "+-1", "-+1", "++1", " 1", "1 ", "1\n",
	"0x", "0X", "0b", "0B", "0o", "0O", "0x_", "0_", "_0", "_", "__", "0__0", "0_0", "0_x1", "0x_1",
	"0x1_", "0x1__2", "1__0", "1_0", "1_000", "1_000_", "_1_000", "1_000_000", "0b_1", "0b1_", "0b_",
	"0o_7", "0o7_", "0_7", "0_8", "08", "09", "07", "0o8", "0b2", "0xg", "0xG", "0xfF", "0XFf",
	"0x0", "0b0", "0o0", "0x00", "-0x1", "+0x1", "-0b1", "-0o1", "-01", "0x-1", "0x+1", "-_1", "-1_",
	"+_1", "+1_0", "-1_0", "- 1", "1e3", "1.0", "0x1p3", "0x.1", "z", "Z", "zz", "ZZ", "10_", "1_0_",
	"0x1_f", "0X_fF", "0B_1_0", "0O_1_7", "0_1_7", "0__17", "01_7_", "0b", "0b_0", "-", "+",
	"9223372036854775807", "9223372036854775808", "-9223372036854775808", "-9223372036854775809",
	"18446744073709551615", "18446744073709551616", "18446744073709551615x", "18446744073709551616x",
	"99999999999999999999x", "99999999999999999999_", "_99999999999999999999",
	"0xffffffffffffffff", "0x10000000000000000", "0x1_0000_0000_0000_0000", "0x_ffff_ffff_ffff_ffff",
	"0xffff_ffff_ffff_ffff_", "-0x8000000000000000", "-0x8000000000000001", "0x7fffffffffffffff",
	"01777777777777777777777", "02000000000000000000000", "0o1777777777777777777777",
	"0b1111111111111111111111111111111111111111111111111111111111111111",
	"0b10000000000000000000000000000000000000000000000000000000000000000",
	"\xff", "1\xff", "١", "１", "0x１",
}

// withUnderscores inserts underscores into a digit string, legally (between
// digits) or illegally (doubled, leading, trailing).
func (g *gen) withUnderscores(d string, legal bool) string {
	if len(d) == 0 {
		return "_"
	}
	var sb strings.Builder
	for i := 0; i < len(d); i++ {
		if i > 0 && g.chance(0.25) {
			sb.WriteByte('_')
		}
		sb.WriteByte(d[i])
	}
	s := sb.String()
	if legal {
		return s
	}
	switch g.intn(4) {
	case 0:
		return s + "_"
	case 1:
		i := g.intn(len(s) + 1)
		return s[:i] + "__" + s[i:]
	case 2:
		return "_" + s + "_"
	default:
		i := g.intn(len(s) + 1)
		return s[:i] + "_" + s[i:] // may or may not be legal
	}
}

// fmtInt renders |v| in the way requested by base (0 = pick a prefix form).
func (g *gen) fmtInt(v *big.Int, base int) string {
	abs := new(big.Int).Abs(v)
	sign := ""
	if v.Sign() < 0 {
		sign = "-"
	} else if g.chance(0.15) {
		sign = "+"
	}
	if g.chance(0.03) {
		sign += g.pick([]string{"+", "-", " "})
	}
	prefix := ""
	b := base
	if base == 0 {
		forms := []struct {
			p string
			b int
		}{{"", 10}, {"", 10}, {"0x", 16}, {"0X", 16}, {"0b", 2}, {"0B", 2}, {"0o", 8}, {"0O", 8}, {"0", 8}}
		f := forms[g.intn(len(forms))]
		prefix, b = f.p, f.b
	}
	digits := abs.Text(b)
	if g.chance(0.3) {
		digits = strings.ToUpper(digits)
	} else if g.chance(0.1) { // mixed case
		bs := []byte(digits)
		for i := range bs {
			if g.chance(0.5) {
				bs[i] = strings.ToUpper(string(bs[i]))[0]
			}
		}
		digits = string(bs)
	}
	if g.chance(0.15) && !(base == 0 && prefix == "") { // leading zeros (would switch decimal to octal)
		digits = strings.Repeat("0", g.between(1, 4)) + digits
	}
	if g.chance(0.25) {
		digits = g.withUnderscores(digits, g.chance(0.6))
		if prefix != "" && g.chance(0.3) {
			digits = "_" + digits
		}
	}
	return sign + prefix + digits
}

// boundaryValue picks a value at or next to a power-of-two boundary.
func (g *gen) boundaryValue() *big.Int {
	bitsList := []uint{7, 8, 15, 16, 31, 32, 63, 64}
	k := bitsList[g.intn(len(bitsList))]
	if g.chance(0.1) {
		k = uint(g.between(1, 70))
	}
	v := new(big.Int).Lsh(big.NewInt(1), k)
	v.Add(v, big.NewInt(int64(g.between(-2, 2))))
	if g.chance(0.5) {
		v.Neg(v)
	}
	return v
}

func (g *gen) randomValue() *big.Int {
	nbits := g.between(0, 70)
	v := new(big.Int).Rand(g.r, new(big.Int).Lsh(big.NewInt(1), uint(nbits)))
	if g.chance(0.4) {
		v.Neg(v)
	}
	return v
}

func (g *gen) intString(base int) string {
	p := g.intn(100)
	switch {
	case p < 12:
		return g.pick(intFixed)
	case p < 50:
		return g.fmtInt(g.boundaryValue(), base)
	case p < 75:
		return g.fmtInt(g.randomValue(), base)
	case p < 85: // digits of a bigger base or junk inside
		return g.mutate(g.fmtInt(g.boundaryValue(), base), "0123456789abcdefxXoObBzZgG_+- .")
	case p < 93: // random token soup
		const alpha = "0123456789abfxXoObB_+-zZ"
		n := g.between(0, 8)
		b := make([]byte, n)
		for i := range b {
			b[i] = alpha[g.intn(len(alpha))]
		}
		return string(b)
	default: // long digit strings (overflow then garbage, etc.)
		n := g.between(15, 80)
		b := make([]byte, n)
		for i := range b {
			b[i] = byte('0' + g.intn(10))
		}
		s := string(b)
		if g.chance(0.3) {
			s += g.pick([]string{"x", "_", "g", " ", "-"})
		}
		if g.chance(0.3) {
			s = "-" + s
		}
		return s
	}
}

func (g *gen) intCase() kase {
	base, bits := g.intBase(), g.bitSize()
	s := g.intString(base)
	return kase{fmt.Sprintf("int %d %d %s", base, bits, hx(s)), ansInt(s, base, bits)}
}

func (g *gen) uintCase() kase {
	base, bits := g.intBase(), g.bitSize()
	s := g.intString(base)
	if g.chance(0.6) { // most generated strings carry no sign; strip one if present
		s = strings.TrimLeft(s, "+-")
	}
	return kase{fmt.Sprintf("uint %d %d %s", base, bits, hx(s)), ansUint(s, base, bits)}
}
