module harness_strconv

go 1.23
