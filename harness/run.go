package main

// Runs the REAL code (hashicorp/go-bexpr, built from /repo's working tree with -tags verif) on one
// case and renders the outcome in the canonical answer format of the Lean driver.

import (
	"bytes"
	"fmt"
	"io"
	"reflect"
	"regexp"
	"sort"
	"strings"

	bexpr "github.com/hashicorp/go-bexpr"
	"github.com/hashicorp/go-bexpr/grammar"
)

// ---------------------------------------------------------------- options

type OptSpec struct {
	Kind string // max | tag | hook | unk | nilopt
	Max  uint64
	Tag  string
	Hook string
	Unk  interface{}
}

type Wrap struct{ V interface{} }

func hookFn(name string) bexpr.ValueTransformationHookFn {
	switch name {
	case "off":
		return nil
	case "identity":
		return func(v reflect.Value) reflect.Value { return v }
	case "unwrap":
		return func(v reflect.Value) reflect.Value {
			w := v
			for w.IsValid() && (w.Kind() == reflect.Interface || w.Kind() == reflect.Ptr) {
				if w.IsNil() {
					return v
				}
				w = w.Elem()
			}
			if w.IsValid() && w.Kind() == reflect.Struct && w.Type() == reflect.TypeOf(Wrap{}) {
				return w.Field(0)
			}
			return v
		}
	case "const42":
		return func(v reflect.Value) reflect.Value { return reflect.ValueOf(42) }
	case "nilret":
		return func(v reflect.Value) reflect.Value { return reflect.Value{} }
	}
	panic("unknown hook " + name)
}

func (o OptSpec) build() bexpr.Option {
	switch o.Kind {
	case "max":
		return bexpr.WithMaxExpressions(o.Max)
	case "tag":
		return bexpr.WithTagName(o.Tag)
	case "hook":
		return bexpr.WithHookFn(hookFn(o.Hook))
	case "unk":
		return bexpr.WithUnknownValue(o.Unk)
	case "nilopt":
		return nil
	}
	panic("unknown option kind " + o.Kind)
}

func (o OptSpec) wire() string {
	switch o.Kind {
	case "max":
		return fmt.Sprintf("( max %d )", o.Max)
	case "tag":
		return "( tag " + hx(o.Tag) + " )"
	case "hook":
		return "( hook " + o.Hook + " )"
	case "unk":
		return "( unk " + serAny(o.Unk) + " )"
	case "nilopt":
		return "nilopt"
	}
	panic("unknown option kind")
}

func buildOpts(os []OptSpec) []bexpr.Option {
	var r []bexpr.Option
	for _, o := range os {
		r = append(r, o.build())
	}
	return r
}

func wireOpts(os []OptSpec) string {
	var sb strings.Builder
	sb.WriteString("( opts")
	for _, o := range os {
		sb.WriteString(" " + o.wire())
	}
	sb.WriteString(" )")
	return sb.String()
}

// ---------------------------------------------------------------- parse

var actionMsgs = map[string]bool{}

func canonErr(e grammar.VerifError) string {
	rule := ""
	if i := strings.Index(e.Prefix, ": rule "); i >= 0 {
		rule = e.Prefix[i+len(": rule "):]
	}
	// the parser's own sentinel errors are recognised by identity (hook), not by their wording
	switch {
	case e.Kind == "max":
		return "max"
	case e.Kind == "nomatch":
		return "nomatch"
	case e.Kind == "enc":
		return fmt.Sprintf("%d:%s:enc", e.Offset, hx(rule))
	case e.Kind == "norule":
		return "norule"
	case strings.HasPrefix(e.Msg, "undefined rule: "):
		return fmt.Sprintf("%d:%s:undef=%s", e.Offset, hx(rule), strings.TrimPrefix(e.Msg, "undefined rule: "))
	case strings.HasPrefix(e.Msg, "interface conversion:"), strings.HasPrefix(e.Msg, "runtime error:"),
		strings.HasPrefix(e.Msg, "unknown expression type"), strings.Contains(e.Msg, "invalid rule: missing name"):
		return "panic"
	case e.Msg == "grammar has no rule":
		return "norule"
	}
	return fmt.Sprintf("%d:%s:act=%s", e.Offset, hx(rule), hx(e.Msg))
}

// realParse: answer line of `parse <max> <hex>`
func realParse(max uint64, input []byte) (ans string) {
	defer enter(fmt.Sprintf("parse %d %s", max, hx(string(input))), "C10", "C11", "C15", "C16", "C20", "C06", "C07", "C01", "C03", "C04")()
	defer func() {
		if r := recover(); r != nil {
			ans = "PANIC"
		}
	}()
	var opts []grammar.Option
	if max != 0 {
		opts = append(opts, grammar.MaxExpressions(max))
	}
	val, err, cnt, errs := grammar.VerifParse(input, opts...)
	if err == nil {
		e, ok := val.(grammar.Expression)
		if !ok || val == nil {
			if val == nil {
				return fmt.Sprintf("ok %d nil", cnt)
			}
			return fmt.Sprintf("ok %d other", cnt)
		}
		return fmt.Sprintf("ok %d %s", cnt, serExpr(e))
	}
	seen := map[string]bool{}
	var es []string
	for _, e := range errs {
		c := canonErr(e)
		if !seen[c] {
			seen[c] = true
			es = append(es, c)
		}
	}
	sort.Strings(es)
	return fmt.Sprintf("err %d %s", cnt, strings.Join(es, ","))
}

// realParseMsg: answer line of `parsemsg <max> <hex>` — the exact err.Error() of grammar.Parse
func realParseMsg(max uint64, input []byte) (ans string) {
	defer enter(fmt.Sprintf("parsemsg %d %s", max, hx(string(input))), "C10", "C11", "C15")()
	defer func() {
		if r := recover(); r != nil {
			ans = "PANIC"
		}
	}()
	_, err := grammar.Parse("", input, grammar.MaxExpressions(max))
	if err == nil {
		return "ok"
	}
	return "err " + hx(err.Error())
}

// ---------------------------------------------------------------- regexp table

func collectPatterns(e grammar.Expression, out map[string]bool) {
	switch n := e.(type) {
	case *grammar.UnaryExpression:
		collectPatterns(n.Operand, out)
	case *grammar.BinaryExpression:
		collectPatterns(n.Left, out)
		collectPatterns(n.Right, out)
	case *grammar.MatchExpression:
		if (n.Operator == grammar.MatchMatches || n.Operator == grammar.MatchNotMatches) && n.Value != nil {
			out[n.Value.Raw] = true
		}
	case *grammar.CollectionExpression:
		collectPatterns(n.Inner, out)
	}
}

func collectSubjects(v reflect.Value, out map[string]bool, depth int) {
	if !v.IsValid() || depth > 12 {
		return
	}
	switch v.Kind() {
	case reflect.String:
		out[v.String()] = true
	case reflect.Ptr, reflect.Interface:
		if !v.IsNil() {
			collectSubjects(v.Elem(), out, depth+1)
		}
	case reflect.Slice:
		if v.Type().Elem().Kind() == reflect.Uint8 {
			b := make([]byte, v.Len())
			for i := range b {
				b[i] = byte(v.Index(i).Uint())
			}
			out[string(b)] = true
		}
		fallthrough
	case reflect.Array:
		for i := 0; i < v.Len(); i++ {
			collectSubjects(v.Index(i), out, depth+1)
		}
	case reflect.Map:
		for _, k := range sortedMapKeys(v) {
			collectSubjects(k, out, depth+1)
			collectSubjects(v.MapIndex(k), out, depth+1)
		}
	case reflect.Struct:
		for i := 0; i < v.NumField(); i++ {
			collectSubjects(v.Field(i), out, depth+1)
		}
	}
}

// reTable computes the regexp oracle table for (expression, data…): every pattern literal of
// the tree × every string / []byte reachable in the data.
func reTable(ast grammar.Expression, data ...interface{}) string {
	pats := map[string]bool{}
	if ast != nil {
		collectPatterns(ast, pats)
	}
	if len(pats) == 0 {
		return "( re )"
	}
	subs := map[string]bool{}
	for _, d := range data {
		if d != nil {
			collectSubjects(reflect.ValueOf(d), subs, 0)
		}
	}
	var ps, ss []string
	for p := range pats {
		ps = append(ps, p)
	}
	for s := range subs {
		ss = append(ss, s)
	}
	sort.Strings(ps)
	sort.Strings(ss)
	var sb strings.Builder
	sb.WriteString("( re")
	for _, p := range ps {
		re, err := regexp.Compile(p)
		if err != nil {
			fmt.Fprintf(&sb, " ( %s 0 )", hx(p))
			continue
		}
		fmt.Fprintf(&sb, " ( %s 1", hx(p))
		for _, s := range ss {
			fmt.Fprintf(&sb, " ( %s %s )", hx(s), b01(re.Match([]byte(s))))
		}
		sb.WriteString(" )")
	}
	sb.WriteString(" )")
	return sb.String()
}

// ---------------------------------------------------------------- evaluate / filter / dump

func create(expr string, opts []OptSpec) (ev *bexpr.Evaluator, ans string) {
	defer enter("parse 0 "+hx(expr), "C10", "C11", "C15", "C16", "C20", "C06", "C07", "C01", "C03", "C04", "C09", "C18")()
	defer func() {
		if r := recover(); r != nil {
			ev, ans = nil, "CP"
		}
	}()
	ev, err := bexpr.CreateEvaluator(expr, buildOpts(opts)...)
	if err != nil {
		if ev != nil {
			return nil, "CBOTH"
		}
		return nil, "CE"
	}
	if ev == nil {
		return nil, "CNEITHER"
	}
	return ev, ""
}

func outcome(b bool, err error) string {
	if err == nil {
		if b {
			return "T"
		}
		return "F"
	}
	if b {
		return "E1"
	}
	return "E0"
}

func safeEvaluate(ev *bexpr.Evaluator, datum interface{}) (ans string) {
	defer enter("eval ( opts ) "+hx(ev.Expression())+" <datum> ( re )", "C09", "C01", "C06", "C12", "C13", "C14")()
	defer func() {
		if r := recover(); r != nil {
			ans = "P"
		}
	}()
	return outcome(ev.Evaluate(datum))
}

// evalCase: request line and real answer for `eval`
func evalCase(opts []OptSpec, expr string, datum interface{}) (req, ans string) {
	ev, cans := create(expr, opts)
	var ast grammar.Expression
	if ev != nil {
		ast = bexpr.VerifAST(ev)
	}
	extra := []interface{}{datum}
	for _, o := range opts {
		if o.Kind == "unk" {
			extra = append(extra, o.Unk)
		}
	}
	before := serAny(datum)
	req = fmt.Sprintf("eval %s %s %s %s", wireOpts(opts), hx(expr), before, reTable(ast, extra...))
	if ev == nil {
		return req, cans
	}
	ans = safeEvaluate(ev, datum)
	// purity, everywhere: the datum (every value reachable from it, nil-ness of pointers included) is what
	// it was before the call
	if after := serAny(datum); after != before && len(mutations) < 20 {
		mutations = append(mutations, Finding{Property: "C13", Kind: "failing-input", What: "Evaluate modified the datum (or a value reachable from it)", Request: req, Detail: expr})
	}
	return req, ans
}

// mutations: purity findings collected by evalCase, handed to the fragment's output by evalText
var mutations []Finding

func canonResult(x interface{}) string {
	return serAny(x) // maps are serialised key-sorted
}

func filterCase(expr string, data interface{}) (req, ans string) {
	defer enter("filter "+hx(expr)+" <data> ( re )", "C17", "C10", "C09", "C13", "C14", "C08")()
	var f *bexpr.Filter
	var err error
	cans := ""
	func() {
		defer func() {
			if r := recover(); r != nil {
				cans = "CP"
			}
		}()
		f, err = bexpr.CreateFilter(expr)
	}()
	var ast grammar.Expression
	if cans == "" && err == nil && f != nil {
		ast = bexpr.VerifAST(bexpr.VerifFilterEvaluator(f))
	}
	req = fmt.Sprintf("filter %s %s %s", hx(expr), serAny(data), reTable(ast, data))
	if cans != "" {
		return req, cans
	}
	if err != nil {
		if f != nil {
			return req, "CBOTH"
		}
		return req, "CE"
	}
	func() {
		defer func() {
			if r := recover(); r != nil {
				ans = "P"
			}
		}()
		res, err := f.Execute(data)
		if err != nil {
			if res != nil {
				ans = "EBOTH"
			} else {
				ans = "E"
			}
			return
		}
		if f == nil {
			ans = "nilfilter " + canonResult(res)
		} else {
			ans = "ok " + canonResult(res)
		}
	}()
	return req, ans
}

func dumpCase(expr, indent string, level int) (req, ans string) {
	defer enter("dump "+hx(expr), "C19", "C10")()
	req = fmt.Sprintf("dump %s %s %d", hx(expr), hx(indent), level)
	ev, cans := create(expr, nil)
	if ev == nil {
		return req, cans
	}
	defer func() {
		if r := recover(); r != nil {
			ans = "P"
		}
	}()
	var buf bytes.Buffer
	bexpr.VerifAST(ev).ExpressionDump(&buf, indent, level)
	// the rendering is a function of the tree: a writer that offers nothing but Write gets the same bytes
	var plain bytes.Buffer
	bexpr.VerifAST(ev).ExpressionDump(struct{ io.Writer }{&plain}, indent, level)
	if plain.String() != buf.String() {
		return req, "ok-writer-dependent " + hx(plain.String())
	}
	return req, "ok " + hx(buf.String())
}

// evalErrText: the text of the error Evaluate returns ("" for none, "<create>" when creation fails)
func evalErrText(opts []OptSpec, expr string, datum interface{}) (txt string) {
	defer func() {
		if r := recover(); r != nil {
			txt = "<panic>"
		}
	}()
	ev, _ := create(expr, opts)
	if ev == nil {
		return "<create>"
	}
	_, err := ev.Evaluate(datum)
	if err == nil {
		return ""
	}
	return err.Error()
}
