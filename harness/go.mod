module harness

go 1.18

require github.com/hashicorp/go-bexpr v0.0.0

require (
	github.com/mitchellh/mapstructure v1.4.1 // indirect
	github.com/mitchellh/pointerstructure v1.2.1
)

replace github.com/hashicorp/go-bexpr => /repo
