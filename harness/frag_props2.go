package main

import (
	"encoding/json"
	"fmt"
	"reflect"
	"sort"
	"strings"
	"unsafe"

	bexpr "github.com/hashicorp/go-bexpr"
)

type jsonNumber = json.Number

func unsafePointer(f reflect.Value) unsafe.Pointer { return unsafe.Pointer(f.UnsafeAddr()) }

// unsafePointerRO: address of field i of an addressable copy of struct v
func unsafePointerRO(v reflect.Value, i int) unsafe.Pointer {
	c := reflect.New(v.Type()).Elem()
	c.Set(v)
	return unsafe.Pointer(c.Field(i).UnsafeAddr())
}

func unsafePtrOf(p *int) unsafe.Pointer { return unsafe.Pointer(p) }

func sortStrings(s []string) { sort.Strings(s) }

// ---------------------------------------------------------------- C17

func containerFor(g *Gen) interface{} {
	elemTypes := []reflect.Type{reflect.TypeOf(Inner{}), reflect.TypeOf(&Inner{}), reflect.TypeOf(map[string]interface{}{}), ifaceType,
		reflect.TypeOf(map[string]int{}), reflect.TypeOf(0), reflect.TypeOf(HiddenHolder{}), reflect.TypeOf(Outer{})}
	et := elemTypes[g.r.Intn(len(elemTypes))]
	switch g.r.Intn(10) {
	case 0:
		return g.randValue(reflect.TypeOf(MyInts{}), 2).Interface()
	case 1:
		return g.randValue(reflect.ArrayOf(g.r.Intn(4), et), 3).Interface()
	case 2, 3:
		kt := keyTypes[g.r.Intn(len(keyTypes))]
		return g.randValue(reflect.MapOf(kt, et), 3).Interface()
	case 4:
		// non-containers
		return []interface{}{nil, 1, "s", Inner{}, &[]int{1}, (*[]int)(nil), make(chan int), &map[string]int{}}[g.r.Intn(8)]
	case 5:
		return g.randValue(reflect.TypeOf([]map[string]interface{}{}), 3).Interface()
	default:
		return g.randValue(reflect.SliceOf(et), 3).Interface()
	}
}

// Sev prints every value alike.
type Sev int

func (Sev) String() string { return "unknown" }

func lookAlikeMaps() []interface{} {
	in := func(x int) Inner { return Inner{X: x, Y: "y"} }
	return []interface{}{
		map[interface{}]Inner{1: in(1), "1": in(2), true: in(1), "true": in(3), 1.0: in(2), int8(1): in(1)},
		map[interface{}]*Inner{1: {X: 1}, "1": {X: 2}, uint(1): {X: 1}},
		map[Sev]Inner{7: in(1), 9: in(1), 3: in(2)},
		map[[2]string]Inner{{"a b", "c"}: in(1), {"a", "b c"}: in(2), {"a", "b"}: in(1)},
		map[MyStr]Inner{"a": in(1), "A": in(1), "a ": in(2)},
		map[float64]Inner{1: in(1), 1.0000000000000002: in(2), -0.0: in(1)},
		map[Inner]Inner{{X: 1}: in(1), {X: 1, Y: "y"}: in(1), {X: 1, Hidden: "h"}: in(2)},
	}
}

func fragFilter(g *Gen, n int, o *Out) {
	emitF := func(text string, data interface{}) string {
		req, ans := filterCase(text, data)
		o.emit(req, ans)
		cls := ans
		if i := strings.Index(ans, " "); i > 0 {
			cls = ans[:i]
		}
		o.count("filter:" + cls)
		return ans
	}
	// the nil filter returns its input unchanged, whatever the input
	for _, d := range []interface{}{nil, 1, "s", []int{1, 2}, map[string]int{"a": 1}, (*int)(nil), Inner{}} {
		before := serAny(d)
		ans := emitF("", d)
		if ans != "nilfilter "+before {
			o.finding(Finding{Property: "C17", Kind: "failing-input", What: "nil filter does not return its input unchanged: " + ans, Request: lastReq(o), Detail: fmt.Sprintf("input %T", d)})
		}
	}
	// a map all of whose entries match: still a NEW map
	{
		m := map[string]map[string]interface{}{"a": {"x": 1}, "b": {"x": 1}}
		f, _ := bexpr.CreateFilter("x == 1")
		res, err := f.Execute(m)
		if err == nil {
			if rm, ok := res.(map[string]map[string]interface{}); ok {
				rm["added"] = nil
				if _, leaked := m["added"]; leaked {
					o.finding(Finding{Property: "C17", Kind: "failing-input", What: "Execute returned the input map itself (not a new map) when every entry matches", Request: "filter " + hx("x == 1") + " " + serAny(m) + " ( re )"})
					delete(m, "added")
				}
			}
		}
		s := []interface{}{map[string]interface{}{"x": 0}, map[string]interface{}{"x": 1}, map[string]interface{}{"x": 2}, map[string]interface{}{"x": 1}}
		before := serAny(s)
		f.Execute(s)
		if serAny(s) != before {
			o.finding(Finding{Property: "C17", Kind: "failing-input", What: "Execute modified its []interface{} input", Request: "filter " + hx("x == 1") + " " + before + " ( re )"})
		}
	}
	// maps whose DISTINCT keys look alike (print alike, differ by type only): every entry is judged
	// on its own, none is lost or judged twice
	for _, lk := range lookAlikeMaps() {
		for _, text := range []string{"X == 1", "X != 1", "X == 2 or Y == \"y\"", "not (X == 1)"} {
			f, err := bexpr.CreateFilter(text)
			ev, err2 := bexpr.CreateEvaluator(text)
			if err != nil || err2 != nil {
				continue
			}
			v := reflect.ValueOf(lk)
			want := reflect.MakeMap(v.Type())
			wantErr := false
			for _, k := range sortedMapKeys(v) {
				switch safeEvaluate(ev, v.MapIndex(k).Interface()) {
				case "T":
					want.SetMapIndex(k, v.MapIndex(k))
				case "F":
				default:
					wantErr = true
				}
			}
			var got interface{}
			var gerr error
			func() {
				defer func() {
					if r := recover(); r != nil {
						gerr = fmt.Errorf("panic: %v", r)
					}
				}()
				got, gerr = f.Execute(lk)
			}()
			o.meta.Cases++
			o.count("filter:look-alike-keys")
			if wantErr != (gerr != nil) || (gerr == nil && !reflect.DeepEqual(got, want.Interface())) {
				o.finding(Finding{Property: "C17", Kind: "failing-input", What: fmt.Sprintf("Execute over a %T whose keys look alike differs from element-wise Evaluate: got %v (err %v), want %v", lk, got, gerr, want.Interface()),
					Request: "filter " + hx(text) + " " + serAny(lk) + " ( re )", Detail: text})
			}
		}
	}
	filterHistory(g, o, n/4+5)
	for i := 0; i < n; i++ {
		data := containerFor(g)
		v := reflect.ValueOf(data)
		var paths []PathInfo
		if v.IsValid() {
			switch v.Kind() {
			case reflect.Slice, reflect.Array:
				for j := 0; j < v.Len() && j < 3; j++ {
					enumPaths(v.Index(j), "bexpr", nil, 3, &paths)
				}
			case reflect.Map:
				for _, k := range sortedMapKeys(v) {
					enumPaths(v.MapIndex(k), "bexpr", nil, 3, &paths)
				}
			}
		}
		e := g.genExpr(reflect.Value{}, "bexpr", paths, 1, false)
		text, _, ok := g.renderTop(e)
		if !ok {
			continue
		}
		if g.r.Intn(40) == 0 {
			text = ""
		}
		before := serAny(data)
		ans := emitF(text, data)
		if serAny(data) != before {
			o.finding(Finding{Property: "C17", Kind: "failing-input", What: "Execute modified its input", Request: lastReq(o), Detail: text})
		}
		if ans == "P" {
			o.finding(Finding{Property: "C17", Kind: "failing-input", What: "Execute panicked", Request: lastReq(o), Detail: fmt.Sprintf("%q on %T", text, data)})
			continue
		}
		if text == "" {
			if ans != "nilfilter "+before {
				o.finding(Finding{Property: "C17", Kind: "failing-input", What: "nil filter does not return its input", Request: lastReq(o)})
			}
			continue
		}
		if ans == "CE" {
			continue
		}
		// direct oracle: element-wise Evaluate
		want := filterReference(text, data)
		if want != ans {
			o.finding(Finding{Property: "C17", Kind: "failing-input", What: "Execute differs from element-wise Evaluate", Request: lastReq(o), Detail: fmt.Sprintf("%q got=%.200s want=%.200s", text, ans, want)})
		}
		if strings.HasPrefix(ans, "ok ") && i%3 == 0 {
			// idempotence and partition
			f, _ := bexpr.CreateFilter(text)
			res, _ := f.Execute(data)
			ans2 := emitF(text, res)
			if ans2 != "ok "+serAny(res) {
				o.finding(Finding{Property: "C17", Kind: "failing-input", What: "Execute is not idempotent", Request: lastReq(o), Detail: text})
			}
			ntext, _, ok := g.renderTop(GNot{e})
			if ok {
				ansN := emitF(ntext, data)
				if strings.HasPrefix(ansN, "ok ") {
					fn, _ := bexpr.CreateFilter(ntext)
					resN, _ := fn.Execute(data)
					total := reflect.ValueOf(res).Len() + reflect.ValueOf(resN).Len()
					if total != reflect.ValueOf(data).Len() {
						o.finding(Finding{Property: "C17", Kind: "failing-input", What: "E and not(E) do not partition the container", Request: lastReq(o), Detail: text})
					}
				}
			}
		}
	}
}

// filterReference: the documented result of Execute computed with per-element Evaluate.
func filterReference(text string, data interface{}) string {
	ev, err := bexpr.CreateEvaluator(text)
	if err != nil {
		return "CE"
	}
	v := reflect.ValueOf(data)
	if !v.IsValid() {
		return "E"
	}
	switch v.Kind() {
	case reflect.Slice, reflect.Array:
		st := v.Type()
		if v.Kind() == reflect.Array {
			st = reflect.SliceOf(v.Type().Elem())
		}
		out := reflect.MakeSlice(st, 0, v.Len())
		for i := 0; i < v.Len(); i++ {
			r := safeEvaluate(ev, v.Index(i).Interface())
			if r == "P" {
				return "P"
			}
			if r != "T" && r != "F" {
				return "E"
			}
			if r == "T" {
				out = reflect.Append(out, v.Index(i))
			}
		}
		return "ok " + serAny(out.Interface())
	case reflect.Map:
		out := reflect.MakeMap(v.Type())
		sawErr := false
		for _, k := range sortedMapKeys(v) {
			r := safeEvaluate(ev, v.MapIndex(k).Interface())
			if r == "P" {
				return "P"
			}
			if r != "T" && r != "F" {
				sawErr = true
				continue
			}
			if r == "T" {
				out.SetMapIndex(k, v.MapIndex(k))
			}
		}
		if sawErr {
			return "E"
		}
		return "ok " + serAny(out.Interface())
	}
	return "E"
}

// ---------------------------------------------------------------- C19

func fragDump(g *Gen, n int, o *Out) {
	indents := []string{"", " ", "  ", "\t", "--", "é", "%s", "\n", "-", "-1", "1", "11", "-11", "%", "%%", "%d", "%[1]s", "\\"}
	for i := 0; i < n; i++ {
		text, _, ok := g.renderTop(g.randTree(3))
		if !ok {
			continue
		}
		ind := indents[g.r.Intn(len(indents))]
		lvl := g.r.Intn(4)
		if g.r.Intn(3) == 0 {
			lvl = g.r.Intn(13)
		}
		if i%25 == 7 {
			// deep trees and high start levels: nesting stays one indent per tree level at every depth
			k := []int{31, 32, 33, 40, 64, 100}[g.r.Intn(6)]
			parts := make([]string, k)
			for j := range parts {
				parts[j] = fmt.Sprintf("f%d == %d", j, j)
			}
			text = strings.Join(parts, []string{" and ", " or "}[g.r.Intn(2)])
			if g.r.Intn(3) == 0 {
				text = strings.Repeat("any a as x { ", k/2) + "x == 1" + strings.Repeat(" }", k/2)
			}
			lvl = []int{0, 1, 30, 33, 64, 200}[g.r.Intn(6)]
		}
		req, ans := dumpCase(text, ind, lvl)
		o.emit(req, ans)
		o.count("dump:" + ans[:2])
		if ans == "P" {
			o.finding(Finding{Property: "C19", Kind: "failing-input", What: "ExpressionDump panicked", Request: req, Detail: text})
		}
		if strings.HasPrefix(ans, "ok-writer-dependent") {
			o.finding(Finding{Property: "C19", Kind: "failing-input", What: "ExpressionDump writes a different rendering into a writer that only implements Write than into a bytes.Buffer", Request: req, Detail: text})
		}
		_, ans2 := dumpCase(text, ind, lvl)
		if ans != ans2 {
			o.finding(Finding{Property: "C19", Kind: "failing-input", What: "the same tree rendered differently twice", Request: req, Detail: text})
		}
	}
}

// ---------------------------------------------------------------- C18

func permutations(xs []OptSpec) [][]OptSpec {
	if len(xs) <= 1 {
		return [][]OptSpec{append([]OptSpec{}, xs...)}
	}
	var out [][]OptSpec
	for i := range xs {
		rest := append(append([]OptSpec{}, xs[:i]...), xs[i+1:]...)
		for _, p := range permutations(rest) {
			out = append(out, append([]OptSpec{xs[i]}, p...))
		}
	}
	return out
}

// optionSliceNotRetained: options are fixed at creation; later changes to the slice the caller
// passed (reused for another evaluator) must not affect the first evaluator.
func optionSliceNotRetained(o *Out) {
	type rec struct {
		J int `json:"jay" alt:"ay"`
	}
	d := rec{J: 3}
	for _, first := range []string{"json", "alt"} {
		for _, second := range []string{"bexpr", "yaml", "alt", "json"} {
			opts := []bexpr.Option{bexpr.WithTagName(first), bexpr.WithUnknownValue("u")}
			sel := map[string]string{"json": "jay", "alt": "ay"}[first]
			ev, err := bexpr.CreateEvaluator(sel+" == 3", opts...)
			if err != nil {
				continue
			}
			before := safeEvaluate(ev, d)
			opts[0] = bexpr.WithTagName(second)
			opts[1] = bexpr.WithUnknownValue("zzz")
			bexpr.CreateEvaluator("J == 3", opts...)
			after := safeEvaluate(ev, d)
			o.meta.Cases++
			o.meta.Distinct++
			if before != "T" || after != before {
				o.finding(Finding{Property: "C18", Kind: "failing-history", What: fmt.Sprintf("evaluator created with tag %s returns %s, and %s after the caller reused its option slice with tag %s", first, before, after, second),
					Request: "eval ( opts ( tag " + hx(first) + " ) ) " + hx(sel+" == 3") + " " + serAny(d) + " ( re )"})
				o.finding(Finding{Property: "C08", Kind: "failing-history", What: "tag name of an evaluator changed after creation (caller's option slice retained)", Request: "eval ( opts ( tag " + hx(first) + " ) ) " + hx(sel+" == 3") + " " + serAny(d) + " ( re )"})
			}
		}
	}
}

func fragOpts(g *Gen, n int, o *Out) {
	optionSliceNotRetained(o)
	optsGovernLookups(g, o, n)
	for i := 0; i < n; i++ {
		datum, root, paths := datumAndPaths(g, "bexpr")
		// include hook-relevant data sometimes
		if g.r.Intn(3) == 0 {
			datum = map[string]interface{}{"w": Wrap{V: map[string]interface{}{"a": 1, "b": "x"}}, "pw": &Wrap{V: []int{1, 2}}, "n": 5, "J": Inner{J: 3, Y: "y"}, "acc": Account{ID: 1, Ptag: "p"}}
			root = reflect.ValueOf(datum)
			paths = nil
			enumPaths(root, "bexpr", nil, 4, &paths)
			paths = append(paths, PathInfo{Parts: []string{"w", "a"}}, PathInfo{Parts: []string{"pw", "0"}}, PathInfo{Parts: []string{"J", "jay"}}, PathInfo{Parts: []string{"J", "why"}}, PathInfo{Parts: []string{"acc", "pname"}, Val: reflect.ValueOf("p")}, PathInfo{Parts: []string{"acc", "bname"}, Val: reflect.ValueOf("p")}, PathInfo{Parts: []string{"acc", "Ptag"}, Val: reflect.ValueOf("p")})
		}
		e := g.genExpr(root, "bexpr", paths, 2, false)
		text, _, ok := g.renderTop(e)
		if !ok {
			continue
		}
		_, _, N, _ := parseCount(text)
		all := []OptSpec{
			{Kind: "tag", Tag: []string{"bexpr", "json", "alt", "", "pointer"}[g.r.Intn(5)]},
			{Kind: "hook", Hook: []string{"identity", "unwrap", "const42", "off"}[g.r.Intn(4)]},
			{Kind: "unk", Unk: []interface{}{"", "u", 0, true, nil}[g.r.Intn(5)]},
			{Kind: "max", Max: []uint64{0, N, N + 5, 1 << 60, N / 2}[g.r.Intn(5)]},
		}
		// every subset, every permutation
		for mask := 0; mask < 16; mask++ {
			var sub []OptSpec
			for b := 0; b < 4; b++ {
				if mask&(1<<b) != 0 {
					sub = append(sub, all[b])
				}
			}
			base := ""
			for pi, p := range permutations(sub) {
				if pi > 0 && mask != 15 && g.r.Intn(3) != 0 {
					continue
				}
				r := evalText(o, p, text, datum)
				if pi == 0 {
					base = r
				} else if r != base {
					o.finding(Finding{Property: "C18", Kind: "failing-input", What: "option order changes the outcome: " + base + " vs " + r, Request: lastReq(o), Detail: text})
				}
			}
			// a nil option is skipped wherever it stands: in front, in the middle, twice
			if len(sub) > 0 {
				pos := g.r.Intn(len(sub) + 1)
				withNil := append(append(append([]OptSpec{}, sub[:pos]...), OptSpec{Kind: "nilopt"}), sub[pos:]...)
				if g.r.Intn(2) == 0 {
					withNil = append([]OptSpec{{Kind: "nilopt"}}, withNil...)
				}
				if r := evalText(o, withNil, text, datum); r != base {
					o.finding(Finding{Property: "C18", Kind: "failing-input", What: "a nil option among the options changes the outcome: " + base + " vs " + r, Request: lastReq(o), Detail: text})
					o.finding(Finding{Property: "C08", Kind: "failing-input", What: "a nil option among the options changes the outcome (options after it are lost?): " + base + " vs " + r, Request: lastReq(o), Detail: text})
				}
			}
			// last of repeated options wins
			if len(sub) > 0 {
				dup := sub[g.r.Intn(len(sub))]
				other := dup
				switch dup.Kind {
				case "tag":
					other.Tag = "other"
				case "hook":
					other.Hook = "nilret"
				case "unk":
					other.Unk = 12345
				case "max":
					other.Max = 1
				}
				rep := append([]OptSpec{other}, sub...)
				// `other` comes before the real one, which must win; a nil option is skipped
				rep = append(rep, OptSpec{Kind: "nilopt"})
				r := evalText(o, rep, text, datum)
				if r != base {
					o.finding(Finding{Property: "C18", Kind: "failing-input", What: "an earlier duplicate option is not overridden by the later one: " + base + " vs " + r, Request: lastReq(o), Detail: text})
				}
			}
		}
		// neutral settings
		r0 := evalText(o, nil, text, datum)
		neutrals := [][]OptSpec{{{Kind: "hook", Hook: "identity"}}, {{Kind: "tag", Tag: "bexpr"}}, {{Kind: "max", Max: 0}}, {{Kind: "max", Max: N}}, {{Kind: "max", Max: N + 1000}}, {{Kind: "nilopt"}}, {{Kind: "hook", Hook: "off"}}}
		for _, nt := range neutrals {
			r := evalText(o, nt, text, datum)
			if r != r0 {
				o.finding(Finding{Property: "C18", Kind: "failing-input", What: fmt.Sprintf("neutral setting %s changes the outcome: %s vs %s", wireOpts(nt), r0, r), Request: lastReq(o), Detail: text})
			}
		}
	}
}

func parseCount(text string) (interface{}, error, uint64, interface{}) {
	ans := realParse(0, []byte(text))
	var n uint64
	fmt.Sscanf(strings.SplitN(ans, " ", 3)[1], "%d", &n)
	return nil, nil, n, nil
}

// ---------------------------------------------------------------- C13

func fragHist(g *Gen, n int, o *Out) {
	// classification of an absent leaf must be per datum: alternate the kind of the parent
	type holder struct{ A int }
	alt := []interface{}{
		map[string]interface{}{"p": map[string]interface{}{"a": 1}},
		map[string]interface{}{"p": holder{A: 1}},
		map[string]interface{}{"p": []interface{}{1}},
		map[string]interface{}{"p": map[string]int{}},
		map[string]interface{}{"p": &holder{}},
		map[string]interface{}{"p": map[string]interface{}{"zz": 1}},
	}
	// a collection updated in place between two calls (same address, same length) is folded over
	// its CURRENT elements / keys
	for i := 0; i < n/6+1; i++ {
		m := map[string]interface{}{"alpha": 1, "x": 2}
		l := []interface{}{1, 2, 3}
		d := map[string]interface{}{"labels": m, "xs": l}
		exprs := []GExpr{
			GColl{Op: "any", Path: []string{"labels"}, Mode: "default", Def: "k", Inner: GMatch{Path: []string{"k"}, Op: "eq", Raw: "beta", LitStyle: 2}},
			GColl{Op: "all", Path: []string{"labels"}, Mode: "indexvalue", Idx: "k", Val: "v", Inner: GMatch{Path: []string{"k"}, Op: "ne", Raw: "beta", LitStyle: 2}},
			GColl{Op: "any", Path: []string{"xs"}, Mode: "default", Def: "e", Inner: GMatch{Path: []string{"e"}, Op: "eq", Raw: "9"}},
		}
		text, _, ok := g.renderTop(exprs[g.r.Intn(len(exprs))])
		if !ok {
			continue
		}
		ev, _ := create(text, nil)
		if ev == nil {
			continue
		}
		safeEvaluate(ev, d)
		delete(m, "alpha")
		m["beta"] = 1
		l[1] = 9
		got := safeEvaluate(ev, d)
		want := evalText(o, nil, text, d)
		if got != want {
			o.finding(Finding{Property: "C13", Kind: "failing-history", What: fmt.Sprintf("after an in-place update of the datum a used evaluator returns %s, a fresh one %s", got, want), Request: lastReq(o), Detail: text})
			o.finding(Finding{Property: "C06", Kind: "failing-history", What: fmt.Sprintf("quantifier folds over stale elements/keys after an in-place update: %s vs %s", got, want), Request: lastReq(o), Detail: text})
		}
	}
	for i := 0; i < n/4+1; i++ {
		op := matchOps[g.r.Intn(len(matchOps))]
		text, _, ok := g.renderTop(GMatch{Path: []string{"p", "zz"}, Op: op, Raw: "1"})
		if !ok {
			continue
		}
		ev, _ := create(text, nil)
		if ev == nil {
			continue
		}
		var hist []string
		for h := 0; h < 6; h++ {
			d := alt[g.r.Intn(len(alt))]
			got := safeEvaluate(ev, d)
			want := evalText(o, nil, text, d)
			hist = append(hist, got)
			if got != want {
				o.finding(Finding{Property: "C13", Kind: "failing-history", What: fmt.Sprintf("call %d on a used evaluator returns %s, a fresh evaluator %s (history %v)", h, got, want, hist), Request: lastReq(o), Detail: text})
				o.finding(Finding{Property: "C05", Kind: "failing-history", What: fmt.Sprintf("absent-key classification depends on earlier calls: %s vs %s", got, want), Request: lastReq(o), Detail: text})
			}
		}
	}
	kindShiftHistory(o)
	shapeShiftHistory(g, o, n)
	for i := 0; i < n; i++ {
		// one evaluator, a history of data
		proto, root, paths := datumAndPaths(g, "bexpr")
		e := g.genExpr(root, "bexpr", paths, 2, false)
		text, _, ok := g.renderTop(e)
		if !ok {
			continue
		}
		var opts []OptSpec
		if g.r.Intn(4) == 0 {
			opts = append(opts, OptSpec{Kind: "unk", Unk: "u"})
		}
		ev, cans := create(text, opts)
		if ev == nil {
			o.count("create:" + cans)
			continue
		}
		if ev.Expression() != text {
			o.finding(Finding{Property: "C13", Kind: "failing-input", What: "Expression() does not return the creation string", Detail: fmt.Sprintf("%q vs %q", ev.Expression(), text), Request: "parse 0 " + hx(text)})
		}
		hlen := 2 + g.r.Intn(7)
		var hist []string
		for h := 0; h < hlen; h++ {
			var d interface{}
			switch g.r.Intn(3) {
			case 0:
				d = proto
			case 1:
				if proto != nil {
					d = g.randValue(reflect.TypeOf(proto), 3).Interface()
				}
			default:
				d = g.randDatum()
			}
			before := serAny(d)
			got := safeEvaluate(ev, d)
			after := serAny(d)
			if before != after {
				o.finding(Finding{Property: "C13", Kind: "failing-input", What: "Evaluate modified the datum", Detail: text, Request: "eval " + wireOpts(opts) + " " + hx(text) + " " + before + " ( re )"})
			}
			// fresh evaluator on the same datum (also the model's request line)
			want := evalText(o, opts, text, d)
			hist = append(hist, got)
			o.count("hist:" + norm(got))
			if got != want {
				o.finding(Finding{Property: "C13", Kind: "failing-history", What: fmt.Sprintf("call %d on a used evaluator returns %s, a fresh evaluator %s (history %v)", h, got, want, hist), Request: lastReq(o), Detail: text})
			}
		}
		if ev.Expression() != text {
			o.finding(Finding{Property: "C13", Kind: "failing-input", What: "Expression() changed after use", Request: "parse 0 " + hx(text)})
		}
	}
}

// ---------------------------------------------------------------- C14

// confusableKeys: groups of distinct map keys that orderings other than plain string order may tie
var confusableKeys = [][]string{
	{"8", "010", "0o10", "0b1000", "0x8", "+8", "08", " 8", "8 ", "8.0"},
	{"16", "0x10", "0X10", "020", "1_6"},
	{"0", "-0", "00", "+0", "0x0"},
	{"1", "01", "1e0", "true", "0x1"},
	{"a", "A", "a ", " a", "a\t"},
	{"ab", "ba", "aB", "Ab"},
	{"é", "e\u0301", "e"},
	{"k1", "k01", "k1 ", "K1"},
}

func fragDet(g *Gen, n int, o *Out) {
	reps := 40
	for i := 0; i < n; i++ {
		// maps of 2..8 entries whose element outcomes mix T / F / E
		size := 2 + g.r.Intn(7)
		m := map[string]interface{}{}
		for len(m) < size {
			k := interestingKeys[g.r.Intn(len(interestingKeys))] + fmt.Sprint(g.r.Intn(9))
			if g.r.Intn(4) == 0 && len(k) > 0 {
				// keys that differ by case only
				m[strings.ToUpper(k)] = map[string]interface{}{"x": g.r.Intn(3)}
				m[strings.ToLower(k)] = g.r.Intn(3)
			}
			switch g.r.Intn(5) {
			case 4:
				m[k] = map[string]interface{}{"y": g.r.Intn(3)} // lacks the field x
			case 0:
				m[k] = map[string]interface{}{"x": g.r.Intn(3)}
			case 1:
				m[k] = g.r.Intn(3)
			case 2:
				m[k] = []interface{}{g.r.Intn(3), "s"}
			default:
				m[k] = map[string]interface{}{"x": "str", "y": g.r.Intn(2) == 0}
			}
		}
		if g.r.Intn(3) == 0 {
			// keys that a plausible "smarter" ordering would tie: same number in different spellings,
			// same letters in different case / with blanks, same characters in another order
			grp := confusableKeys[g.r.Intn(len(confusableKeys))]
			for _, j := range g.r.Perm(len(grp))[:2+g.r.Intn(2)] {
				switch g.r.Intn(3) {
				case 0:
					m[grp[j]] = map[string]interface{}{"x": g.r.Intn(3)}
				case 1:
					m[grp[j]] = g.r.Intn(3)
				default:
					m[grp[j]] = map[string]interface{}{"x": "str", "y": g.r.Intn(2) == 0}
				}
			}
		}
		datum := map[string]interface{}{"m": m}
		bodies := []GExpr{
			GMatch{Path: []string{"v", "x"}, Op: "eq", Raw: fmt.Sprint(g.r.Intn(3))},
			GMatch{Path: []string{"v"}, Op: "eq", Raw: fmt.Sprint(g.r.Intn(3))},
			GMatch{Path: []string{"v", "0"}, Op: "ne", Raw: "1"},
			GMatch{Path: []string{"k"}, Op: "matches", Raw: "^[a-k]"},
			GOr{GMatch{Path: []string{"v", "y"}, Op: "eq", Raw: "true"}, GMatch{Path: []string{"v", "x"}, Op: "eq", Raw: "1"}},
		}
		c := GColl{Op: []string{"all", "any"}[g.r.Intn(2)], Path: []string{"m"}, Mode: "indexvalue", Idx: "k", Val: "v", Inner: bodies[g.r.Intn(len(bodies))]}
		text, _, ok := g.renderTop(c)
		if !ok {
			continue
		}
		first := evalText(o, nil, text, datum)
		ev, _ := create(text, nil)
		if ev == nil {
			continue
		}
		seen := map[string]int{first: 1}
		for r := 0; r < reps; r++ {
			seen[safeEvaluate(ev, datum)]++
		}
		o.count("det:" + norm(first))
		if len(seen) > 1 {
			o.finding(Finding{Property: "C14", Kind: "failing-input", What: fmt.Sprintf("repeated Evaluate gives different outcomes %v", seen), Request: lastReq(o), Detail: text})
		}
		// the same entries in a map[interface{}]interface{} (quantifiers must reject it the same way every time)
		{
			im := map[interface{}]interface{}{}
			for k, v := range m {
				im[k] = v
			}
			idatum := map[string]interface{}{"m": im}
			ifirst := evalText(o, nil, text, idatum)
			iseen := map[string]int{ifirst: 1}
			if iev, _ := create(text, nil); iev != nil {
				for r := 0; r < reps; r++ {
					iseen[safeEvaluate(iev, idatum)]++
				}
			}
			if len(iseen) > 1 {
				o.finding(Finding{Property: "C14", Kind: "failing-input", What: fmt.Sprintf("repeated Evaluate over an interface-keyed map gives different outcomes %v", iseen), Request: lastReq(o), Detail: text})
			}
		}
		// concretely typed maps whose entries mix decisive and erroring elements
		{
			type pn struct{ N int }
			keys := make([]string, 0, len(m))
			for k := range m {
				keys = append(keys, k)
			}
			sort.Strings(keys)
			ml, mp, ms := map[string][]int{}, map[string]*pn{}, map[MyStr]string{}
			for _, k := range keys {
				switch g.r.Intn(3) {
				case 0:
					ml[k], mp[k], ms[MyStr(k)] = []int{1}, nil, "no"
				case 1:
					ml[k], mp[k], ms[MyStr(k)] = []int{1, g.r.Intn(3)}, &pn{g.r.Intn(2)}, "yes"
				default:
					ml[k], mp[k], ms[MyStr(k)] = []int{2, 5, 7}, &pn{1}, ""
				}
			}
			// maps whose key type is not string (int, bool, float, named int keys; interface keys holding
			// ints): today an error; whatever the library does with them, it must do the same every time
			mi, mb, mf, mn, mx := map[int]interface{}{}, map[bool]interface{}{}, map[float64]interface{}{}, map[MyInt]interface{}{}, map[interface{}]interface{}{}
			for j, k := range keys {
				var v interface{} = "open"
				switch g.r.Intn(3) {
				case 0:
					v = 7
				case 1:
					v = map[string]interface{}{"x": 1}
				}
				mi[j], mf[float64(j)/2], mn[MyInt(j)], mx[j] = v, v, v, v
				mb[j%2 == 0] = v
				_ = k
			}
			tdatum := map[string]interface{}{"ml": ml, "mp": mp, "ms": ms, "mi": mi, "mb": mb, "mf": mf, "mn": mn, "mx": mx}
			// the exact common shapes (a fast path for precisely map[string]string, map[string]int … would live here);
			// their elements cannot fail on their own, so the erroring operand refers to something outside the map
			xs, xi, xb, xf, xl := map[string]string{}, map[string]int{}, map[string]bool{}, map[string]float64{}, map[string][]string{}
			for j, k := range keys {
				xs[k], xi[k], xb[k], xf[k], xl[k] = []string{"x", "y", "z"}[j%3], j%3, j%2 == 0, float64(j%3), []string{[]string{"x", "y", "z"}[j%3]}
			}
			tdatum["xs"], tdatum["xi"], tdatum["xb"], tdatum["xf"], tdatum["xl"], tdatum["Port"] = xs, xi, xb, xf, xl, 8080
			groups := map[string]interface{}{}
			for j, k := range keys {
				groups[k] = map[string]interface{}{"a": j % 3, "b": []string{"x", "y"}[j%2], "c": []int{7}}
			}
			tdatum["groups"], tdatum["k"] = groups, map[string]interface{}{"a": 1, "b": "s", "c": []int{7}}
			tdatum["mixk"] = map[interface{}]interface{}{5: "a", uint64(1) << 63: "b", "1e400": "c", 2.5: "d", "name": "e", [2]int{1, 2}: "f", true: "g"}
			tdatum["mixs"] = map[interface{}]int{"x": 1, "9223372036854775808": 2, 7: 3}
			texts := []string{
				"9223372036854775808 in mixk", "mixk contains \"1e400\"", "abc in mixk", "name not in mixk", "x in mixs", "mixs contains 7",
				fmt.Sprintf("%s groups as _, g { 9223372036854775808 in mixs or g.a == 1 }", c.Op),
				fmt.Sprintf("%s groups as _, g { any g as _, x { x == 1 } }", c.Op),
				fmt.Sprintf("%s groups as gk, g { all g as k, x { x != 9 and gk != k } }", c.Op),
				fmt.Sprintf("%s k as k, x { x == 1 }", c.Op),
				fmt.Sprintf("%s groups as g { any groups as h, v { any v as w { w == \"c\" and h == g } } }", c.Op),
				fmt.Sprintf("%s xs as k, v { v == \"x\" or Port == \"http\" }", c.Op),
				fmt.Sprintf("%s %s as k, v { v == 1 or Port == \"http\" }", c.Op, []string{"xi", "xf"}[g.r.Intn(2)]),
				fmt.Sprintf("%s xb as k, v { v == true or Missing == 1 }", c.Op),
				fmt.Sprintf("%s xl as k, v { \"x\" in v or Port == \"http\" }", c.Op),
				fmt.Sprintf("%s xs as k { k == \"%s\" or Port == \"http\" }", c.Op, keys[len(keys)/2]),
				fmt.Sprintf("%s mi as k, v { v == \"open\" }", c.Op),
				fmt.Sprintf("%s %s as _, v { v == \"open\" }", c.Op, []string{"mb", "mf", "mn", "mx"}[g.r.Intn(4)]),
				fmt.Sprintf("%s mi as k { k == 1 }", c.Op),
				fmt.Sprintf("%s ml as k, v { v.1 == %d }", c.Op, g.r.Intn(3)),
				fmt.Sprintf("%s mp as _, v { v.N != 0 }", c.Op),
				fmt.Sprintf("%s ms as k, v { v == \"yes\" or Missing == 1 }", c.Op),
				fmt.Sprintf("not (%s ml as v { v matches \"^[a-k]\" and ml.k1 is empty })", c.Op),
			}
			ttext := texts[g.r.Intn(len(texts))]
			tfirst := evalText(o, nil, ttext, tdatum)
			tseen := map[string]int{tfirst: 1}
			if tev, _ := create(ttext, nil); tev != nil {
				for r := 0; r < reps; r++ {
					tseen[safeEvaluate(tev, tdatum)]++
				}
			}
			o.count("det-typed:" + norm(tfirst))
			if len(tseen) > 1 {
				o.finding(Finding{Property: "C14", Kind: "failing-input", What: fmt.Sprintf("repeated Evaluate over a concretely typed map gives different outcomes %v", tseen), Request: lastReq(o), Detail: ttext})
			}
		}
		// filters over maps
		inner, _, ok2 := g.renderTop(GMatch{Path: []string{"x"}, Op: "eq", Raw: fmt.Sprint(g.r.Intn(3))})
		if ok2 {
			fseen := map[string]int{}
			for r := 0; r < reps/2; r++ {
				_, ans := filterCase(inner, m)
				if strings.HasPrefix(ans, "E") {
					ans = "E"
				}
				fseen[ans]++
			}
			if len(fseen) > 1 {
				o.finding(Finding{Property: "C14", Kind: "failing-input", What: "repeated Execute over a map gives different outcomes", Detail: inner, Request: "filter " + hx(inner) + " " + serAny(m) + " ( re )"})
			}
		}
	}
}

// ---------------------------------------------------------------- C16 (literal fidelity)

func fragQuoteRT(g *Gen, n int, o *Out) {
	strs := []string{"web 1", "web  1", "web\t1", " web 1", "web 1 ", "a b c", "a  b c", "a b  c"}
	strs = append(strs, interestingStrings...)
	strs = append(strs, rawPool...)
	for i := 0; i < n; i++ {
		var s string
		if i < len(strs) {
			s = strs[i]
		} else {
			s = g.pickString()
			if g.r.Intn(2) == 0 {
				s = "/" + s
			}
		}
		datum := map[string]interface{}{"X": s}
		for _, style := range []int{2, 3} {
			var lit string
			if style == 3 {
				if !canBacktick(s) {
					continue
				}
				lit = "`" + s + "`"
			} else {
				lit = quoteDouble(s)
			}
			text := "X == " + lit
			r := evalText(o, nil, text, datum)
			o.count(fmt.Sprintf("style%d:%s", style, r))
			if r != "T" {
				class := ""
				if style == 2 && s != "" && ptrShapedRe.MatchString(s) {
					// the one known family: a double-quoted literal of JSON-pointer shape
					class = "double-quoted-json-pointer-shaped-literal"
				}
				o.finding(Finding{Property: "C16", Kind: "failing-input", What: fmt.Sprintf("X == <quoted s> is %s for X = s", r), Request: lastReq(o), Detail: fmt.Sprintf("s=%q text=%q", s, text), Class: class})
			}
		}
	}
}

// kindShiftHistory: ONE evaluator whose selector meets values of every scalar kind in turn (dynamically typed data),
// for literals that are numbers for some kinds and not for others; every call equals a fresh evaluator's.
func kindShiftHistory(o *Out) {
	vals := []interface{}{1, 1.5, uint(1), float32(1.5), int8(-1), "1.5", uint8(7), -1, true, 2.5, int64(7), "x", uint64(1), 1.5, jsonNumber("1.5"), jsonNumber("-1"), 7, nil, 1.5}
	for _, lit := range []string{"1.5", "-1", "1", "7", "0x7", "1e0", "true", "x", "-1.0", "256"} {
		for _, form := range []string{"V == %s", "V != %s", "%s in L", "%s not in L", "any L as e { e == %s }"} {
			text := fmt.Sprintf(form, lit)
			ev, _ := create(text, nil)
			if ev == nil {
				continue
			}
			for rounds := 0; rounds < 2; rounds++ {
				var hist []string
				for h, v := range vals {
					d := map[string]interface{}{"V": v, "L": []interface{}{vals[(h+1)%len(vals)], v}}
					got := safeEvaluate(ev, d)
					want := evalText(o, nil, text, d)
					hist = append(hist, got)
					if got != want {
						o.finding(Finding{Property: "C13", Kind: "failing-history", What: fmt.Sprintf("call %d on a used evaluator returns %s, a fresh evaluator %s (the selector met values of different kinds; history %v)", h, got, want, hist), Request: lastReq(o), Detail: text})
						break
					}
				}
			}
		}
	}
}
