package main

import (
	"fmt"
	"reflect"
	"sync"

	bexpr "github.com/hashicorp/go-bexpr"
)

func init() {
	fragments["conc"] = fragConc
}

// FR-conc (C12): k goroutines share one Evaluator / Filter (first use and steady state), and
// create evaluators concurrently.  Built with -race by the orchestrator: the race detector's
// happens-before analysis makes the verdict independent of the schedule observed; results are
// compared with the sequential run.
func evalFresh(text string, opts []OptSpec, d interface{}) string {
	ev, cans := create(text, opts)
	if ev == nil {
		return cans
	}
	return safeEvaluate(ev, d)
}

func fragConc(g *Gen, n int, o *Out) {
	const k = 8
	// shared runs one evaluator on the data from k goroutines (first use happens concurrently) and
	// compares every answer with a fresh evaluator's sequential answer.
	shared := func(text string, opts []OptSpec, data []interface{}, i int) *bexpr.Evaluator {
		// sequential reference with a fresh evaluator per datum
		want := make([]string, len(data))
		for j, d := range data {
			ev, cans := create(text, opts)
			if ev == nil {
				want[j] = cans
			} else {
				want[j] = safeEvaluate(ev, d)
			}
		}
		ev, cans := create(text, opts)
		o.count("conc:create:" + cans)
		if ev == nil {
			return nil
		}
		// first use happens concurrently
		var wg sync.WaitGroup
		got := make([][]string, k)
		for w := 0; w < k; w++ {
			wg.Add(1)
			go func(w int) {
				defer wg.Done()
				res := make([]string, 0, 3*len(data))
				for rep := 0; rep < 3; rep++ {
					for j := range data {
						res = append(res, safeEvaluate(ev, data[(j+w)%len(data)]))
					}
				}
				got[w] = res
			}(w)
		}
		wg.Wait()
		o.meta.Cases++
		o.meta.Distinct++
		for w := 0; w < k; w++ {
			for idx, r := range got[w] {
				j := (idx%len(data) + w) % len(data)
				o.count("conc:" + norm(r))
				if r != want[j] {
					o.finding(Finding{Property: "C12", Kind: "failing-schedule", What: fmt.Sprintf("concurrent Evaluate returned %s, sequential %s", r, want[j]), Detail: text,
						Request: fmt.Sprintf("harness-race -frag conc (case %d)", i)})
				}
			}
		}
		return ev
	}
	// quantifiers over collection paths of 1..7 segments (the parser grows a selector's path slice
	// one append at a time, so its spare capacity depends on the length), alone and together with
	// the per-call options; every goroutine sees a list of another length
	for depth := 1; depth <= 7; depth++ {
		segs := []string{"a", "b", "c", "d", "e", "f", "g"}[:depth]
		mk := func(n int) interface{} {
			list := make([]interface{}, n)
			for j := range list {
				list[j] = j
			}
			list[n-1] = 7
			var d interface{} = list
			for j := depth - 1; j >= 0; j-- {
				d = map[string]interface{}{segs[j]: d}
			}
			return d
		}
		data := []interface{}{mk(2), mk(6), mk(11), mk(23)}
		dotted, pointer := "", "\"/"
		for j, sg := range segs {
			if j > 0 {
				dotted += "."
				pointer += "/"
			}
			dotted += sg
			pointer += sg
		}
		pointer += "\""
		for vi, sel := range []string{dotted, pointer} {
			for oi, opts := range [][]OptSpec{nil, {{Kind: "unk", Unk: ""}}, {{Kind: "hook", Hook: "identity"}}, {{Kind: "unk", Unk: "u"}, {Kind: "hook", Hook: "identity"}}} {
				body := "v == 7"
				if oi%2 == 1 {
					body = "v == 7 and absent != \"zz\""
				}
				for _, text := range []string{
					fmt.Sprintf("any %s as v { %s }", sel, body),
					fmt.Sprintf("all %s as i, v { i != 99 and (%s or v != 7) }", sel, body),
				} {
					if vi == 1 && depth > 4 && oi > 1 {
						continue
					}
					shared(text, opts, data, -depth)
				}
			}
		}
	}
	for i := 0; i < n; i++ {
		proto, root, paths := datumAndPaths(g, "bexpr")
		e := g.genExpr(root, "bexpr", paths, 2, false)
		if i%3 == 0 {
			// make sure matches / not matches and quantifiers occur often
			var strs []PathInfo
			for _, p := range paths {
				if sv := unwrapIP(p.Val); sv.IsValid() && sv.Kind() == reflect.String {
					strs = append(strs, p)
				}
			}
			if len(strs) > 0 {
				p := strs[g.r.Intn(len(strs))]
				e = GOr{GMatch{Path: p.Parts, Op: []string{"matches", "notmatches"}[g.r.Intn(2)], Raw: regexps[g.r.Intn(len(regexps))]}, e}
			}
		}
		text, _, ok := g.renderTop(e)
		if !ok {
			continue
		}
		var opts []OptSpec
		switch g.r.Intn(6) {
		case 0:
			opts = append(opts, OptSpec{Kind: "unk", Unk: "u"})
		case 1:
			opts = append(opts, OptSpec{Kind: "hook", Hook: "identity"})
		}
		data := []interface{}{proto}
		for j := 0; j < 3; j++ {
			if proto != nil && g.r.Intn(2) == 0 {
				data = append(data, g.randValue(reflect.TypeOf(proto), 3).Interface())
			} else {
				data = append(data, g.randDatum())
			}
		}
		ev := shared(text, opts, data, i)
		if ev == nil {
			continue
		}
		// filters shared by goroutines
		if i%4 == 0 {
			f, err := bexpr.CreateFilter(text)
			if err == nil && f != nil {
				cont := []interface{}{}
				for _, d := range data {
					cont = append(cont, d)
				}
				_, wantF := filterCase(text, cont)
				var wg2 sync.WaitGroup
				gotF := make([]string, k)
				for w := 0; w < k; w++ {
					wg2.Add(1)
					go func(w int) {
						defer wg2.Done()
						res, err := f.Execute(cont)
						if err != nil {
							gotF[w] = "E"
						} else {
							gotF[w] = "ok " + serAny(res)
						}
					}(w)
				}
				wg2.Wait()
				for w := 0; w < k; w++ {
					if gotF[w] != wantF {
						o.finding(Finding{Property: "C12", Kind: "failing-schedule", What: "concurrent Execute differs from the sequential result", Detail: text, Request: fmt.Sprintf("harness-race -frag conc (case %d)", i)})
					}
				}
			}
		}
		// concurrent creation
		if i%4 == 1 {
			var wg3 sync.WaitGroup
			res := make([]string, k)
			for w := 0; w < k; w++ {
				wg3.Add(1)
				go func(w int) {
					defer wg3.Done()
					ev2, c2 := create(text, opts)
					if ev2 == nil {
						res[w] = c2
					} else {
						res[w] = safeEvaluate(ev2, data[0])
					}
				}(w)
			}
			wg3.Wait()
			want0 := evalFresh(text, opts, data[0])
			for w := 0; w < k; w++ {
				if res[w] != want0 {
					o.finding(Finding{Property: "C12", Kind: "failing-schedule", What: "evaluator created concurrently behaves differently", Detail: text})
				}
			}
		}
	}
	// one shared Filter over LARGE containers (sizes beyond 1024 / 4096), each goroutine on its own container
	// with its own set of selected rows, first use and steady state: a scratch buffer or an index list kept on
	// the Filter, or a size-dependent code path, shows as wrong rows (and as a race)
	for _, text := range []string{"keep == true", "n != 3 and keep == true"} {
		f, err := bexpr.CreateFilter(text)
		if err != nil || f == nil {
			continue
		}
		conts := make([]interface{}, k)
		wants := make([]string, k)
		for w := 0; w < k; w++ {
			size := []int{1500, 1030, 4200, 2050}[w%4]
			rows := make([]map[string]interface{}, size)
			for j := range rows {
				rows[j] = map[string]interface{}{"keep": (j*7+w*3)%(w+2) == 0, "n": j % 5, "pos": j}
			}
			conts[w] = rows
			if w%3 == 2 {
				m := map[string]map[string]interface{}{}
				for j, r := range rows[:1025] {
					m[fmt.Sprintf("k%05d", j)] = r
				}
				conts[w] = m
			}
			fr, _ := bexpr.CreateFilter(text)
			res, err := fr.Execute(conts[w])
			if err != nil {
				wants[w] = "E"
			} else {
				wants[w] = canonResult(res)
			}
		}
		for round := 0; round < 3; round++ {
			var wg4 sync.WaitGroup
			got := make([]string, k)
			for w := 0; w < k; w++ {
				wg4.Add(1)
				go func(w int) {
					defer wg4.Done()
					defer func() {
						if r := recover(); r != nil {
							got[w] = "P " + fmt.Sprint(r)
						}
					}()
					res, err := f.Execute(conts[w])
					if err != nil {
						got[w] = "E"
					} else {
						got[w] = canonResult(res)
					}
				}(w)
			}
			wg4.Wait()
			o.meta.Cases += k
			o.count("conc:large-filter")
			for w := 0; w < k; w++ {
				if got[w] != wants[w] {
					o.finding(Finding{Property: "C12", Kind: "failing-schedule", What: fmt.Sprintf("concurrent Execute of one Filter over large containers (round %d, goroutine %d, %T) differs from the sequential result", round, w, conts[w]), Detail: text, Request: "harness-race -frag conc (large shared filter)"})
					break
				}
			}
		}
	}
	if len(o.meta.Samples) == 0 {
		o.meta.Samples = append(o.meta.Samples, fmt.Sprintf("%d goroutines x 3 rounds over 4 data on one shared evaluator, %d evaluators", k, n))
	}
}
