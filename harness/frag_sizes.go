package main

import (
	"fmt"
	"reflect"
	"strings"

	bexpr "github.com/hashicorp/go-bexpr"
)

func init() {
	fragments["sizes"] = fragSizes
}

// FR-sizes: the properties are stated for every size — every chain length, list length, map size,
// path depth, string length.  The random generators stay small; this fragment walks each size
// dimension through 0..20 and around powers of two and round numbers, with inputs whose expected
// outcome is known in closed form, on the REAL code (the small sizes also go to the model).  A limit,
// a fast path or a buffer that only starts to matter at some size shows up here.
func sizeLadder(n int) []int {
	var out []int
	for i := 0; i <= 20; i++ {
		out = append(out, i)
	}
	for _, c := range []int{32, 64, 100, 128, 256, 512, 1000, 1024} {
		out = append(out, c-1, c, c+1, c+2)
	}
	if n >= 300 { // escalated quick tier
		for _, c := range []int{500, 2048, 4096} {
			out = append(out, c-1, c, c+1, c+2)
		}
	}
	if n >= 2000 { // thorough
		for _, c := range []int{8192, 10000, 16384, 32768, 65536, 100000} {
			out = append(out, c-1, c, c+1)
		}
	}
	return out
}

func realEval(text string, opts []OptSpec, datum interface{}) string {
	ev, cans := create(text, opts)
	if ev == nil {
		return cans
	}
	return norm(safeEvaluate(ev, datum))
}

func fragSizes(g *Gen, n int, o *Out) {
	ladder := sizeLadder(n)
	report := func(prop, what, text string, size int, datum interface{}) {
		req := fmt.Sprintf("sizes %s (size %d)", what, size)
		if size <= 40 {
			req = "eval ( opts ) " + hx(text) + " " + serAny(datum) + " ( re )"
		}
		if len(text) > 300 {
			text = text[:300] + "…"
		}
		o.finding(Finding{Property: prop, Kind: "failing-input", What: fmt.Sprintf("%s at size %d", what, size), Request: req, Detail: text})
	}
	check := func(prop, what, text string, size int, datum interface{}, want string) {
		var got string
		if size <= 20 {
			got = norm(evalText(o, nil, text, datum)) // also answered by the model
		} else {
			got = realEval(text, nil, datum)
			o.meta.Cases++
		}
		o.count("sizes:" + strings.SplitN(what, ":", 2)[0])
		if got != want {
			report(prop, fmt.Sprintf("%s: got %s, expected %s", what, got, want), text, size, datum)
		}
	}
	// ---- C15 / C10 / C16: the language has no size limits — every size of chain, operand, blank run, identifier,
	// literal and selector is derivable and must be accepted, with the tree the grammar prescribes (its size is
	// checked through the step count being finite and the verdict; small sizes also go to the model)
	accept := func(what, text string, size int) {
		var ans string
		if size <= 20 {
			ans = emitParse(o, 0, text)
		} else {
			ans = realParse(0, []byte(text))
			o.meta.Cases++
		}
		o.count("sizes:parse")
		if !strings.HasPrefix(ans, "ok ") {
			if len(ans) > 200 {
				ans = ans[:200]
			}
			show := text
			if len(show) > 300 {
				show = show[:300] + "…"
			}
			for _, p := range []string{"C15", "C10", "C16"} {
				o.finding(Finding{Property: p, Kind: "failing-input", What: fmt.Sprintf("%s of size %d is derivable from the grammar but the parser answers %s", what, size, ans), Request: "parse 0 " + hx(text), Detail: show})
			}
		}
	}
	for _, k := range ladder {
		if k == 0 || k > 4100 {
			continue
		}
		ts := make([]string, k)
		for i := range ts {
			ts[i] = fmt.Sprintf("f%d == %d", i, i)
		}
		accept("and-chain", strings.Join(ts, " and "), k)
		accept("or-chain", strings.Join(ts, " or "), k)
		accept("mixed chain", strings.Join(ts, " and ")+" or "+strings.Join(ts, " or "), 2*k)
		accept("blank run", "a"+strings.Repeat(" \t\r\n", k)+"=="+strings.Repeat(" ", k)+"1", k)
		accept("identifier", strings.Repeat("ab_9", k)+" == 1", k)
		accept("dotted selector", "a"+strings.Repeat(".b", k)+" is empty", k)
		accept("bracket selector", "a"+strings.Repeat("[\"k\"]", k)+" is empty", k)
		accept("pointer selector", "\""+strings.Repeat("/seg", k)+"\" is not empty", k)
		accept("digit segment", "a."+strings.Repeat("7", k)+" == 1", k)
		accept("number literal", "a == 1"+strings.Repeat("0", k)+"."+strings.Repeat("5", k), k)
		accept("quantifier chain", strings.Repeat("any a as x { ", minInt(k, 200))+"x == 1"+strings.Repeat(" }", minInt(k, 200)), minInt(k, 200))
		if k <= 64 {
			accept("run of not", strings.Repeat("not ", k)+"a == 1", k)
		}
		if k <= 7 {
			accept("nested parentheses", strings.Repeat("(", k)+"a == 1"+strings.Repeat(")", k), k)
		}
	}
	d0 := map[string]interface{}{"p": 0, "s": "x"}
	for _, k := range ladder {
		if k == 0 || k > 4100 { // the parser is superlinear in the number of operands
			continue
		}
		// ---- C03: chains of k operands
		terms := make([]string, k)
		for i := range terms {
			terms[i] = fmt.Sprintf("p != %d", i+1)
		}
		allTrue := strings.Join(terms, " and ")
		check("C03", "and-chain of true operands", allTrue, k, d0, "T")
		check("C03", "and-chain whose last operand is false", allTrue+" and p == 1", k+1, d0, "F")
		check("C03", "and-chain whose last operand is an error", allTrue+" and zz == 1", k+1, d0, "E")
		for i := range terms {
			terms[i] = fmt.Sprintf("p == %d", i+1)
		}
		allFalse := strings.Join(terms, " or ")
		check("C03", "or-chain of false operands", allFalse, k, d0, "F")
		check("C03", "or-chain whose last operand is true", allFalse+" or p == 0", k+1, d0, "T")
		check("C03", "or-chain whose last operand is an error", allFalse+" or zz == 1", k+1, d0, "E")
		check("C03", "or-chain: an error after a true operand is not reached", "p == 0 or "+allFalse+" or zz == 1", k+2, d0, "T")
		if k <= 4100 {
			check("C03", "connective around a long chain", "not ("+allTrue+") or s == x", k+1, d0, "T")
			check("C03", "negated long chain", "not ("+allTrue+")", k, d0, "F")
		}
		if k <= 64 {
			nots := strings.Repeat("not ", k)
			check("C03", "run of not", nots+"p == 0", k, d0, map[bool]string{true: "T", false: "F"}[k%2 == 0])
		}
	}
	// ---- C18 / C11 / C03: a parser budget at or above the parse's step count changes nothing at evaluation time,
	// however many elements the quantifiers visit: the collections are sized from the step count itself, so that
	// the lookups of one Evaluate call exceed every budget tried
	for _, text := range []string{
		"all xs as x { x != -8 }",
		"any ints as y { y == -7 }",
		"(all xs as x { x != -8 }) and (all ints as y { y != -8 }) and p == 0",
		"not (not (all xs as x { x != -8 }) or not (any ints as y { y == -7 }))",
	} {
		_, _, N, _ := parseCount(text)
		k := int(2*N) + 16
		xs := make([]interface{}, k)
		ints := make([]int, k)
		for i := range xs {
			xs[i], ints[i] = i, i
		}
		xs[k-1], ints[k-1] = -7, -7
		dd := map[string]interface{}{"xs": xs, "ints": ints, "p": 0}
		plain := realEval(text, nil, dd)
		if plain != "T" {
			o.finding(Finding{Property: "C03", Kind: "failing-input", What: fmt.Sprintf("every operand is true over %d elements, the outcome is %s", k, plain), Request: fmt.Sprintf("sizes budget neutral (size %d)", k), Detail: text})
		}
		for _, b := range []uint64{N, N + 7, 2 * N} {
			if got := realEval(text, []OptSpec{{Kind: "max", Max: b}}, dd); got != plain {
				o.finding(Finding{Property: "C18", Kind: "failing-input", What: fmt.Sprintf("a budget of %d (the parse takes %d steps) changes the outcome over collections of %d elements: %s vs %s", b, N, k, got, plain), Request: fmt.Sprintf("sizes budget neutral (size %d)", k), Detail: text})
				o.finding(Finding{Property: "C03", Kind: "failing-input", What: fmt.Sprintf("under a budget of %d steps over %d elements the outcome is %s, but %s without the budget (each operand is true on its own)", b, k, got, plain), Request: fmt.Sprintf("sizes budget neutral (size %d)", k), Detail: text})
				o.finding(Finding{Property: "C11", Kind: "failing-input", What: fmt.Sprintf("a budget of %d >= N=%d acts at evaluation time (%d elements): %s vs %s", b, N, k, got, plain), Request: fmt.Sprintf("sizes budget neutral (size %d)", k), Detail: text})
				break
			}
			o.meta.Cases++
		}
	}
	for _, k := range ladder {
		// ---- C06 / C01 / C05: collections of k elements
		xs := make([]interface{}, k)
		ints := make([]int, k)
		m := map[string]interface{}{}
		for i := range xs {
			xs[i] = i
			ints[i] = i
			m[fmt.Sprintf("k%06d", i)] = i
		}
		if k > 0 {
			xs[k-1], ints[k-1] = -7, -7
			m[fmt.Sprintf("k%06d", k-1)] = -7
		}
		d := map[string]interface{}{"xs": xs, "ints": ints, "m": m}
		anyWant, emptyWant := "T", "F"
		if k == 0 {
			anyWant, emptyWant = "F", "T"
		}
		for _, coll := range []string{"xs", "ints"} {
			check("C06", "any: only the last element matches", "any "+coll+" as x { x == -7 }", k, d, anyWant)
			check("C06", "all: every element matches", "all "+coll+" as x { x != -8 }", k, d, "T")
			check("C06", "all: only the last element fails", "all "+coll+" as i, x { x != -7 }", k, d, map[bool]string{true: "T", false: "F"}[k == 0])
			check("C06", "any: no element matches", "any "+coll+" as x { x == -8 }", k, d, "F")
			check("C01", "in: the last element", "-7 in "+coll, k, d, anyWant)
			check("C01", "in: no element", "-8 in "+coll, k, d, "F")
			check("C01", "is empty", coll+" is empty", k, d, emptyWant)
			check("C01", "is not empty", coll+" is not empty", k, d, map[string]string{"T": "F", "F": "T"}[emptyWant])
			if k > 0 {
				check("C01", "last index", fmt.Sprintf("%s.%d == -7", coll, k-1), k, d, "T")
			}
			check("C05", "index one past the end is an error", fmt.Sprintf("%s.%d == 1", coll, k), k, d, "E")
		}
		if k > 0 {
			bad := make([]interface{}, k)
			copy(bad, xs)
			bad[k-1] = []int{1} // equality against a slice is an error
			check("C06", "any: an error at the last element, nothing decisive before", "any xs as x { x == -8 }", k, map[string]interface{}{"xs": bad}, "E")
		}
		// pointerstructure looks a map key up by walking MapKeys(): a quantifier over a map of k entries
		// costs k^2, so the map dimension stops at 4100
		if k > 4100 {
			continue
		}
		check("C06", "any over a map: one entry matches", "any m as k, v { v == -7 }", k, d, anyWant)
		check("C06", "all over a map: one entry fails", "all m as k, v { v != -7 }", k, d, map[bool]string{true: "T", false: "F"}[k == 0])
		check("C06", "any over a map: keys", fmt.Sprintf("any m as k { k == k%06d }", k/2), k, d, anyWant)
		check("C01", "in: a map key", fmt.Sprintf("k%06d in m", k/2), k, d, anyWant)
		check("C05", "absent key of a large map", "m.zz == 1", k, d, "F")
		// ---- C17: filters
		if f, err := bexpr.CreateFilter("v == 1"); err == nil {
			list := make([]map[string]int, k)
			fm := map[string]map[string]int{}
			want := 0
			for i := range list {
				list[i] = map[string]int{"v": i % 2, "pos": i}
				fm[fmt.Sprintf("k%d", i)] = list[i]
				want += i % 2
			}
			for _, cont := range []interface{}{list, fm} {
				res, err := safeExecuteFilter(f, cont)
				o.meta.Cases++
				o.count("sizes:filter")
				good := err == nil && reflect.ValueOf(res).Len() == want
				if good && reflect.ValueOf(res).Kind() == reflect.Slice {
					rv := reflect.ValueOf(res)
					for j := 0; j < rv.Len(); j++ {
						if rv.Index(j).Interface().(map[string]int)["pos"] != 2*j+1 {
							good = false
						}
					}
				}
				if !good {
					report("C17", fmt.Sprintf("filter over a %T keeps the wrong elements (expected %d, in order)", cont, want), "v == 1", k, cont)
				}
			}
		}
	}
	// ---- C01 / C07: path depth, string length
	for _, k := range ladder {
		if k == 0 || k > 4100 {
			continue
		}
		var d interface{} = 1
		for i := 0; i < k; i++ {
			d = map[string]interface{}{"a": d}
		}
		dotted := strings.TrimSuffix(strings.Repeat("a.", k), ".")
		pointer := `"` + strings.Repeat("/a", k) + `"`
		check("C01", "selector of k parts", dotted+" == 1", k, d, "T")
		check("C07", "selector of k parts, pointer spelling", pointer+" == 1", k, d, "T")
		if k >= 2 {
			check("C05", "absent leaf as the k-th part", strings.Repeat("a.", k-1)+"zz == 1", k, d, "F")
		}
		check("C05", "step into a scalar below k parts", dotted+".a.b == 1", k, d, "E")
		s := strings.Repeat("ab", k)
		ds := map[string]interface{}{"X": s, "L": []string{"q", s}}
		check("C16", "double-quoted literal of 2k bytes", `X == "`+s+`"`, k, ds, "T")
		check("C16", "backquoted literal of 2k bytes", "X == `"+s+"`", k, ds, "T")
		check("C16", "bare literal of 2k bytes", "X == "+s, k, ds, "T")
		check("C02", "string one byte longer", `X == "`+s+`a"`, k, ds, "F")
		check("C01", "long string in a list", "`"+s+"` in L", k, ds, "T")
		check("C01", "matches on a long string", `X matches "^(ab)+$"`, k, ds, "T")
		check("C01", "substring of a long string", `"ba" in X`, k, ds, map[bool]string{true: "T", false: "F"}[k > 1])
	}
}

func safeExecuteFilter(f *bexpr.Filter, data interface{}) (res interface{}, err error) {
	defer func() {
		if r := recover(); r != nil {
			err = fmt.Errorf("panic: %v", r)
		}
	}()
	return f.Execute(data)
}

func minInt(a, b int) int {
	if a < b {
		return a
	}
	return b
}
