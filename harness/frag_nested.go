package main

import (
	"fmt"
	"reflect"
	"sort"
	"strconv"
)

func init() {
	fragments["nested"] = fragNested
}

// nestedDatum: lists of lists / maps of lists / lists of maps, so that an inner quantifier ranges
// over a collection reached through an outer quantifier's alias.
func (g *Gen) nestedDatum() map[string]interface{} {
	leaf := func() interface{} {
		switch g.r.Intn(4) {
		case 0:
			return g.r.Intn(3)
		case 1:
			return []string{"a", "b", "x"}[g.r.Intn(3)]
		case 2:
			return g.r.Intn(2) == 0
		}
		return float64(g.r.Intn(3))
	}
	row := func() interface{} {
		n := g.r.Intn(4)
		r := make([]interface{}, n)
		for i := range r {
			r[i] = leaf()
		}
		return r
	}
	obj := func() interface{} {
		m := map[string]interface{}{"T": row(), "n": g.r.Intn(3)}
		if g.r.Intn(3) == 0 {
			m["M"] = map[string]interface{}{"k1": leaf(), "k2": leaf()}
		}
		return m
	}
	d := map[string]interface{}{}
	rows := make([]interface{}, g.r.Intn(4))
	for i := range rows {
		rows[i] = row()
	}
	d["G"] = rows
	objs := make([]interface{}, g.r.Intn(4))
	for i := range objs {
		objs[i] = obj()
	}
	d["S"] = objs
	mm := map[string]interface{}{}
	for i := 0; i < g.r.Intn(4); i++ {
		mm[[]string{"p", "q", "r", "s"}[g.r.Intn(4)]] = obj()
	}
	d["MM"] = mm
	d["g"] = leaf()
	d["t"] = leaf()
	return d
}

// elementPaths: the element paths of a collection value at `parts`, in the order a quantifier
// must visit them (index order; sorted keys).
func elementPaths(v reflect.Value, parts []string) ([][]string, bool) {
	v = unwrapIfaceOnly(v)
	if !v.IsValid() {
		return nil, false
	}
	var out [][]string
	switch v.Kind() {
	case reflect.Slice, reflect.Array:
		for i := 0; i < v.Len(); i++ {
			out = append(out, append(append([]string{}, parts...), strconv.Itoa(i)))
		}
	case reflect.Map:
		if v.Type().Key() != reflect.TypeOf("") {
			return nil, false
		}
		var ks []string
		for _, k := range sortedMapKeys(v) {
			ks = append(ks, k.String())
		}
		sort.Strings(ks)
		for _, k := range ks {
			out = append(out, append(append([]string{}, parts...), k))
		}
	default:
		return nil, false
	}
	return out, true
}

func lookupPath(root interface{}, parts []string) reflect.Value {
	v := reflect.ValueOf(root)
	for _, p := range parts {
		v = unwrapIP(v)
		if !v.IsValid() {
			return reflect.Value{}
		}
		switch v.Kind() {
		case reflect.Map:
			v = v.MapIndex(reflect.ValueOf(p))
		case reflect.Slice:
			i, err := strconv.Atoi(p)
			if err != nil || i < 0 || i >= v.Len() {
				return reflect.Value{}
			}
			v = v.Index(i)
		default:
			return reflect.Value{}
		}
	}
	return v
}

// unrollAll replaces every quantifier whose binding uses only a value name by the or/and chain over
// the element paths (recursively, outermost first); ok=false if some quantifier cannot be unrolled.
func unrollAll(root interface{}, e GExpr) (GExpr, bool) {
	switch n := e.(type) {
	case GNot:
		x, ok := unrollAll(root, n.E)
		return GNot{x}, ok
	case GAnd:
		l, ok1 := unrollAll(root, n.L)
		r, ok2 := unrollAll(root, n.R)
		return GAnd{l, r}, ok1 && ok2
	case GOr:
		l, ok1 := unrollAll(root, n.L)
		r, ok2 := unrollAll(root, n.R)
		return GOr{l, r}, ok1 && ok2
	case GMatch:
		return n, true
	case GColl:
		x := ""
		switch n.Mode {
		case "default":
			x = n.Def
			if v := unwrapIfaceOnly(lookupPath(root, n.Path)); v.IsValid() && v.Kind() == reflect.Map {
				return nil, false // one-name form over a map binds the key
			}
		case "value":
			x = n.Val
		default:
			return nil, false
		}
		elems, ok := elementPaths(lookupPath(root, n.Path), n.Path)
		if !ok || bindsName(n.Inner, n.Path[0]) {
			return nil, false
		}
		var chain GExpr
		for j := len(elems) - 1; j >= 0; j-- {
			pj, ok := unrollAll(root, subst(n.Inner, x, elems[j]))
			if !ok {
				return nil, false
			}
			if chain == nil {
				chain = pj
			} else if n.Op == "any" {
				chain = GOr{pj, chain}
			} else {
				chain = GAnd{pj, chain}
			}
		}
		if chain == nil {
			// empty collection: any = false, all = true; expressed with a constant match on the datum
			if n.Op == "any" {
				return GMatch{Path: []string{"cT"}, Op: "ne", Raw: "1"}, true
			}
			return GMatch{Path: []string{"cT"}, Op: "eq", Raw: "1"}, true
		}
		return chain, true
	}
	return nil, false
}

// FR-nested (C06, C01): nested quantifiers whose inner collection is reached through the outer
// alias, over lists and string-keyed maps, value-name bindings; compared with the complete
// unrolling into and/or chains evaluated by the real code.
func fragNested(g *Gen, n int, o *Out) {
	names := []string{"g", "t", "x", "v", "item", "G", "S"}
	for i := 0; i < n; i++ {
		d := g.nestedDatum()
		d["cT"] = 1 // constant for the empty-collection case of the unrolling
		outerPaths := [][]string{{"G"}, {"S"}, {"MM"}}
		op := outerPaths[g.r.Intn(3)]
		x := names[g.r.Intn(len(names))]
		y := names[g.r.Intn(len(names))]
		var innerPath []string
		switch op[0] {
		case "G":
			innerPath = []string{x}
		default:
			innerPath = []string{x, []string{"T", "T", "M"}[g.r.Intn(3)]}
		}
		leafPath := []string{y}
		if g.r.Intn(4) == 0 {
			leafPath = []string{x, "n"}
		}
		leaf := GMatch{Path: leafPath, Op: []string{"eq", "ne", "eq"}[g.r.Intn(3)], Raw: []string{"0", "1", "2", "a", "true"}[g.r.Intn(5)]}
		var body GExpr = leaf
		if g.r.Intn(3) == 0 {
			body = GOr{leaf, GMatch{Path: []string{x, "n"}, Op: "eq", Raw: "1"}}
		}
		inner := GColl{Op: []string{"any", "all"}[g.r.Intn(2)], Path: innerPath, Mode: []string{"default", "value"}[g.r.Intn(2)], Def: y, Val: y, Inner: body}
		outerMode := "value"
		if op[0] != "MM" && g.r.Intn(2) == 0 {
			outerMode = "default"
		}
		outer := GColl{Op: []string{"any", "all"}[g.r.Intn(2)], Path: op, Mode: outerMode, Def: x, Val: x, Inner: inner}
		if g.r.Intn(5) == 0 {
			outer.Inner = GAnd{GMatch{Path: []string{"cT"}, Op: "eq", Raw: "1"}, inner}
		}
		rq, tq, ok := evalG(g, o, nil, outer, d)
		if !ok || rq == "P" {
			continue
		}
		o.count("nested:" + op[0] + ":" + norm(rq))
		// C07: the same expression with every selector (the quantified collections, also the inner
		// one that goes through the outer alias) spelled dotted/bracketed and as JSON pointers
		if allPathsBoth(outer) {
			r1, t1, ok1 := evalG(g, o, nil, setStyle(outer, 1), d)
			r2, t2, ok2 := evalG(g, o, nil, setStyle(outer, 2), d)
			if ok1 && ok2 && (r1 != r2 || r1 != rq) {
				o.finding(Finding{Property: "C07", Kind: "failing-input", What: fmt.Sprintf("nested quantifier: dotted/bracket spelling gives %s, pointer spelling %s, mixed %s", r1, r2, rq), Request: lastReq(o), Detail: fmt.Sprintf("%q vs %q", t1, t2)})
			}
		}
		un, ok := unrollAll(d, outer)
		if !ok {
			o.count("nested:not-unrollable")
			continue
		}
		ru, _, ok := evalG(g, o, nil, un, d)
		if !ok || ru == "P" {
			continue
		}
		if norm(rq) != norm(ru) {
			o.finding(Finding{Property: "C06", Kind: "failing-input", What: fmt.Sprintf("nested quantifier gives %s, its complete unrolling gives %s", rq, ru), Request: lastReq(o), Detail: tq})
		}
	}
}
