package main

// A call into the library that never returns (a grammar loop that matches empty, a cache that waits on
// itself) must not hang the check: every call into the real code registers itself here, and a watchdog
// turns a call that has been running for longer than the limit into a finding, flushes what has been
// produced so far and ends the process normally.

import (
	"encoding/json"
	"fmt"
	"os"
	"path/filepath"
	"strconv"
	"sync/atomic"
	"time"
)

type runningCase struct {
	req   string
	props []string
	start time.Time
}

var currentCase atomic.Pointer[runningCase]

// enter registers a call into the real code; the returned function unregisters it
func enter(req string, props ...string) func() {
	if currentCase.Load() != nil {
		return func() {} // nested registration: the outermost one stands
	}
	currentCase.Store(&runningCase{req: req, props: props, start: time.Now()})
	return func() { currentCase.Store(nil) }
}

func startWatchdog(o *Out, outDir string) {
	limit := 60 * time.Second
	if s := os.Getenv("VERIF_CASE_TIMEOUT"); s != "" {
		if v, err := strconv.Atoi(s); err == nil && v > 0 {
			limit = time.Duration(v) * time.Second
		}
	}
	go func() {
		for {
			time.Sleep(500 * time.Millisecond)
			c := currentCase.Load()
			if c == nil || time.Since(c.start) < limit {
				continue
			}
			props := c.props
			if len(props) == 0 {
				props = []string{"C09", "C10"}
			}
			req := c.req
			if len(req) > 4000 {
				req = req[:4000]
			}
			for _, p := range props {
				o.meta.Findings = append(o.meta.Findings, Finding{Property: p, Kind: "failing-input", What: fmt.Sprintf("the call into the library did not return within %v (a terminating call on the unchanged library)", limit), Request: req})
			}
			o.meta.Notes = append(o.meta.Notes, "stopped by the watchdog: a call did not return")
			o.cases.Flush()
			o.impl.Flush()
			mb, _ := json.MarshalIndent(o.meta, "", " ")
			os.WriteFile(filepath.Join(outDir, "meta.json"), mb, 0o644)
			os.Exit(0)
		}
	}()
}
