package main

// Every parse case answered through the verification hook (a parser object built for this call) is
// answered a second time by the PUBLIC entry point grammar.Parse, after "disturbing" public calls
// with other options and other inputs.  The two must agree on acceptance, on the tree and on the
// error text: a parser, error list or option that survives from one public call to the next (an
// object pool with an incomplete reset, a package-level cache) is visible only this way.

import (
	"fmt"
	"strings"

	bexpr "github.com/hashicorp/go-bexpr"
	"github.com/hashicorp/go-bexpr/grammar"
)

var publicCalls int

func publicParse(max uint64, input string) (ans string) {
	defer enter(fmt.Sprintf("parse %d %s", max, hx(input)), "C10", "C11", "C15", "C16", "C20", "C06", "C07")()
	defer func() {
		if r := recover(); r != nil {
			ans = "PANIC " + fmt.Sprint(r)
		}
	}()
	var opts []grammar.Option
	if max != 0 {
		opts = append(opts, grammar.MaxExpressions(max))
	}
	val, err := grammar.Parse("", []byte(input), opts...)
	if err != nil {
		return "err " + err.Error()
	}
	if e, ok := val.(grammar.Expression); ok && val != nil {
		return "ok " + serExpr(e)
	}
	return "ok other"
}

func hookParse(max uint64, input string) (ans string) {
	defer enter(fmt.Sprintf("parse %d %s", max, hx(input)), "C10", "C11", "C15", "C16", "C20", "C06", "C07")()
	defer func() {
		if r := recover(); r != nil {
			ans = "PANIC " + fmt.Sprint(r)
		}
	}()
	var opts []grammar.Option
	if max != 0 {
		opts = append(opts, grammar.MaxExpressions(max))
	}
	val, err, _, _ := grammar.VerifParse([]byte(input), opts...)
	if err != nil {
		return "err " + err.Error()
	}
	if e, ok := val.(grammar.Expression); ok && val != nil {
		return "ok " + serExpr(e)
	}
	return "ok other"
}

// publicCross: called for (a share of) the parse cases of every parse fragment
func publicCross(o *Out, max uint64, input string) {
	publicCalls++
	if publicCalls%4 != 0 {
		return
	}
	// disturbing calls: other options, other inputs, failing and succeeding, through both packages
	func() {
		defer func() { recover() }()
		switch publicCalls / 4 % 7 {
		case 0:
			grammar.Parse("", []byte(input), grammar.MaxExpressions(uint64(3+publicCalls%40)))
		case 1:
			grammar.Parse("", []byte("a == `\xff` and b == 1"), grammar.AllowInvalidUTF8(true))
		case 2:
			bexpr.CreateEvaluator("foo == \"\\q\" or x == 1", bexpr.WithMaxExpressions(uint64(50+publicCalls%500)))
		case 3:
			grammar.Parse("other", []byte("x in y and ("), grammar.GlobalStore("k", 1))
		case 4:
			bexpr.CreateEvaluator("a == 1")
			bexpr.CreateFilter("(a")
		case 5:
			grammar.Parse("", []byte("all a as x, y { x == `1` }"), grammar.MaxExpressions(1<<40), grammar.AllowInvalidUTF8(true))
		}
	}()
	want := hookParse(max, input)
	got := publicParse(max, input)
	o.meta.Cases++
	o.count("public:" + strings.SplitN(got, " ", 2)[0])
	if got != want {
		req := fmt.Sprintf("parse %d %s", max, hx(input))
		what := fmt.Sprintf("the public grammar.Parse, called after other public calls, answers %.200q where a parser built for this call answers %.200q", got, want)
		for _, p := range []string{"C10", "C15", "C11", "C16", "C06", "C07", "C20"} {
			o.finding(Finding{Property: p, Kind: "failing-history", What: what, Request: req, Detail: fmt.Sprintf("%q", input)})
		}
	}
}
