package main

import (
	"fmt"
	"strings"

	bexpr "github.com/hashicorp/go-bexpr"
	"github.com/hashicorp/go-bexpr/grammar"
)

func init() {
	fragments["parse-tokens"] = fragParseTokens
	fragments["parse-deriv"] = fragParseDeriv
	fragments["parse-bytes"] = fragParseBytes
	fragments["budget"] = fragBudget
}

var tokenAlphabet = []string{
	"(", ")", "{", "}", ",", "_", "==", "!=", "and", "or", "not", "in", "is", "empty", "contains", "matches", "as", "all", "any",
	"a", "foo", "x1", "a/b", ".b", ".0", `["k"]`, "[`k`]", "[", "]", `"`, "`", "1", "-1", "0", "1.5", "01", "1.", `"s"`, "`r`",
	`"/a/b"`, `"a b"`, `""`, `"/"`, `"\x41"`, `"\q"`, ".", "-", "~", "/", "=", "!", "notin", "a.b", "-0.50",
}

// data on which every accepted expression is evaluated by the shape oracle: the identifiers of
// the token alphabet / path pool resolve to strings, numbers, lists and maps
var shapeData = []interface{}{
	nil,
	map[string]interface{}{"a": "s", "foo": "bar", "x1": "1", "a/b": "s", "b": "s", "k": "v", "x": map[string]interface{}{"key with space": "v", "y": "z"},
		"m": map[string]interface{}{"co:lon": "c"}, "s": []interface{}{"a", map[string]interface{}{"x": "1"}}, "notes": "n", "é": "e", "0": "zero",
		"all": "1", "any": "1", "not": "1", "in": map[string]interface{}{"x": "1"}, "r": "r", "X": map[string]interface{}{"Y_z": "1"}},
	map[string]string{"a": "1", "foo": "s"},
	[]interface{}{"a", 1},
}

// shapeOracle checks the C10 contract of CreateEvaluator / CreateFilter / Parse on one input.
var shapeCalls int

func shapeOracle(o *Out, input string) {
	defer enter("parse 0 "+hx(input), "C10", "C15", "C11", "C16", "C20", "C06", "C07")()
	var perr error
	var pval interface{}
	func() {
		defer func() {
			if r := recover(); r != nil {
				o.finding(Finding{Property: "C10", Kind: "failing-input", What: "grammar.Parse panicked", Detail: fmt.Sprint(r), Request: "parse 0 " + hx(input)})
			}
		}()
		pval, perr = grammar.Parse("", []byte(input))
	}()
	var ev *bexpr.Evaluator
	var cerr error
	func() {
		defer func() {
			if r := recover(); r != nil {
				o.finding(Finding{Property: "C10", Kind: "failing-input", What: "CreateEvaluator panicked", Detail: fmt.Sprint(r), Request: "parse 0 " + hx(input)})
			}
		}()
		ev, cerr = bexpr.CreateEvaluator(input)
	}()
	if (ev == nil) == (cerr == nil) {
		o.finding(Finding{Property: "C10", Kind: "failing-input", What: "CreateEvaluator returned both or neither", Request: "parse 0 " + hx(input)})
	}
	// the same with every other option set, in particular a step budget that runs out
	shapeCalls++
	if shapeCalls%4 == 0 || len(input) < 12 {
		budgets := []uint64{1, 2, 7, 100, 517, 5000, 1 << 40, 1 << 63, ^uint64(0)}
		b := budgets[shapeCalls/4%len(budgets)]
		for oi, opts := range [][]bexpr.Option{
			{bexpr.WithMaxExpressions(b)},
			{bexpr.WithMaxExpressions(b), bexpr.WithTagName("json"), bexpr.WithUnknownValue(nil)},
			{nil, bexpr.WithHookFn(nil), bexpr.WithMaxExpressions(0)},
		} {
			var ev2 *bexpr.Evaluator
			var err2 error
			func() {
				defer func() {
					if r := recover(); r != nil {
						o.finding(Finding{Property: "C10", Kind: "failing-input", What: fmt.Sprintf("CreateEvaluator with options (budget %d) panicked", b), Detail: fmt.Sprint(r), Request: fmt.Sprintf("parse %d %s", b, hx(input))})
						err2 = fmt.Errorf("panic")
					}
				}()
				ev2, err2 = bexpr.CreateEvaluator(input, opts...)
			}()
			o.meta.Cases++
			if (ev2 == nil) == (err2 == nil) {
				o.finding(Finding{Property: "C10", Kind: "failing-input", What: fmt.Sprintf("CreateEvaluator with options (budget %d) returned both or neither", b), Request: fmt.Sprintf("parse %d %s", b, hx(input))})
			}
			if err2 == nil && cerr != nil {
				o.finding(Finding{Property: "C10", Kind: "failing-input", What: "an option makes CreateEvaluator accept a string it otherwise rejects", Request: fmt.Sprintf("parse %d %s", b, hx(input))})
			}
			// … and under a budget, too, the error text is the parser's
			eb := b
			if oi == 2 {
				eb = 0
			}
			if want := realParseMsg(eb, []byte(input)); err2 != nil && err2.Error() != "panic" && want != "err "+hx(err2.Error()) {
				what := fmt.Sprintf("CreateEvaluator's error text under budget %d differs from grammar.Parse's: %q", eb, err2.Error())
				o.finding(Finding{Property: "C10", Kind: "failing-input", What: what, Request: fmt.Sprintf("parsemsg %d %s", eb, hx(input))})
				o.finding(Finding{Property: "C15", Kind: "failing-input", What: what, Request: fmt.Sprintf("parsemsg %d %s", eb, hx(input))})
			}
		}
	}
	// CreateEvaluator hands the parser's error through unchanged: same text as grammar.Parse
	if perr != nil && cerr != nil && perr.Error() != cerr.Error() {
		what := fmt.Sprintf("CreateEvaluator's error text differs from grammar.Parse's: %q vs %q", cerr.Error(), perr.Error())
		o.finding(Finding{Property: "C10", Kind: "failing-input", What: what, Request: "parsemsg 0 " + hx(input)})
		o.finding(Finding{Property: "C15", Kind: "failing-input", What: what, Request: "parsemsg 0 " + hx(input)})
	}
	if (perr == nil) != (cerr == nil) {
		o.finding(Finding{Property: "C10", Kind: "failing-input", What: "Parse and CreateEvaluator disagree on acceptance", Request: "parse 0 " + hx(input)})
		o.finding(Finding{Property: "C15", Kind: "failing-input", What: fmt.Sprintf("CreateEvaluator and grammar.Parse do not accept the same strings (Parse err=%v, CreateEvaluator err=%v)", perr != nil, cerr != nil), Request: "parse 0 " + hx(input)})
	}
	if perr == nil {
		if _, ok := pval.(grammar.Expression); !ok || pval == nil {
			o.finding(Finding{Property: "C10", Kind: "failing-input", What: "Parse accepted without an Expression", Request: "parse 0 " + hx(input)})
		}
	}
	// creation results must not depend on earlier calls: a success, then the input twice
	if len(input) > 0 && len(input) < 40 {
		bexpr.CreateFilter("a == 1")
		for rep := 0; rep < 2; rep++ {
			f0, e0 := bexpr.CreateFilter(input)
			if (f0 == nil) == (e0 == nil) {
				o.finding(Finding{Property: "C10", Kind: "failing-history", What: fmt.Sprintf("CreateFilter returned both or neither on call %d of the same input after an earlier success", rep+1), Request: "parse 0 " + hx(input)})
			}
		}
	}
	var f *bexpr.Filter
	var ferr error
	func() {
		defer func() {
			if r := recover(); r != nil {
				o.finding(Finding{Property: "C10", Kind: "failing-input", What: "CreateFilter panicked", Detail: fmt.Sprint(r), Request: "parse 0 " + hx(input)})
			}
		}()
		f, ferr = bexpr.CreateFilter(input)
	}()
	if input == "" {
		if f != nil || ferr != nil {
			o.finding(Finding{Property: "C10", Kind: "failing-input", What: "CreateFilter(\"\") is not the nil filter", Request: "parse 0 x"})
		}
	} else if (f == nil) == (ferr == nil) {
		o.finding(Finding{Property: "C10", Kind: "failing-input", What: "CreateFilter returned both or neither", Request: "parse 0 " + hx(input)})
	} else if (ferr == nil) != (cerr == nil) {
		o.finding(Finding{Property: "C10", Kind: "failing-input", What: "CreateFilter and CreateEvaluator disagree", Request: "parse 0 " + hx(input)})
	}
	if ev != nil {
		// a returned evaluator can always be evaluated …
		for _, d := range shapeData {
			func() {
				defer func() {
					if r := recover(); r != nil {
						o.finding(Finding{Property: "C10", Kind: "failing-input", What: "Evaluate on an accepted expression panicked", Detail: fmt.Sprint(r), Request: "parse 0 " + hx(input)})
					}
				}()
				ev.Evaluate(d)
			}()
		}
		if f != nil {
			func() {
				defer func() {
					if r := recover(); r != nil {
						o.finding(Finding{Property: "C10", Kind: "failing-input", What: "Execute on an accepted expression panicked", Detail: fmt.Sprint(r), Request: "parse 0 " + hx(input)})
					}
				}()
				f.Execute(shapeData)
			}()
		}
		// … and its tree dumped without panicking
		func() {
			defer func() {
				if r := recover(); r != nil {
					o.finding(Finding{Property: "C10", Kind: "failing-input", What: "dump of an accepted tree panicked", Detail: fmt.Sprint(r), Request: "dump " + hx(input) + " x20 0"})
				}
			}()
			var sb strings.Builder
			bexpr.VerifAST(ev).ExpressionDump(&sb, " ", 0)
		}()
	}
}

func emitParse(o *Out, max uint64, input string) string {
	publicCross(o, max, input)
	ans := realParse(max, []byte(input))
	o.emit(fmt.Sprintf("parse %d %s", max, hx(input)), ans)
	// the exact text of the error (positions, farthest failure, expected list, de-duplication):
	// answered by the model's `errorText`
	o.emit(fmt.Sprintf("parsemsg %d %s", max, hx(input)), realParseMsg(max, []byte(input)))
	switch {
	case strings.HasPrefix(ans, "ok"):
		o.count("parse:accepted")
	case strings.Contains(ans, "act="):
		o.count("parse:error-production")
	case strings.HasSuffix(ans, " max"):
		o.count("parse:budget")
	case strings.Contains(ans, "enc"):
		o.count("parse:invalid-encoding")
	default:
		o.count("parse:nomatch")
	}
	return ans
}

// FR-parse, exhaustive part: every sequence of up to k tokens, joined with "" and with " ".
// n selects k: n<=2000 → k=2 plus a random sample of longer ones; else k=3 complete.
func fragParseTokens(g *Gen, n int, o *Out) {
	k := 2
	if n >= 100000 {
		k = 3
	}
	var rec func(prefix []string, depth int)
	rec = func(prefix []string, depth int) {
		if len(prefix) > 0 {
			for _, sep := range []string{"", " "} {
				if sep == " " && len(prefix) == 1 {
					continue
				}
				in := strings.Join(prefix, sep)
				emitParse(o, 0, in)
				if len(prefix) <= 2 {
					shapeOracle(o, in)
				}
			}
		}
		if depth == k {
			return
		}
		for _, t := range tokenAlphabet {
			rec(append(prefix, t), depth+1)
		}
	}
	rec(nil, 0)
	o.meta.Notes = append(o.meta.Notes, fmt.Sprintf("exhaustive token sequences up to k=%d over %d tokens, with and without blanks", k, len(tokenAlphabet)))
	// random longer sequences
	extra := n
	if k == 3 {
		extra = n / 4
	}
	for i := 0; i < extra; i++ {
		l := 3 + g.r.Intn(6)
		var ts []string
		for j := 0; j < l; j++ {
			ts = append(ts, tokenAlphabet[g.r.Intn(len(tokenAlphabet))])
		}
		sep := " "
		if g.r.Intn(3) == 0 {
			sep = ""
		}
		in := strings.Join(ts, sep)
		emitParse(o, 0, in)
		if i%10 == 0 {
			shapeOracle(o, in)
		}
	}
}

var pathPool = [][]string{{"a"}, {"foo"}, {"foo", "bar"}, {"a", "0"}, {"a", "b", "c"}, {"x", "key with space"}, {"m", "co:lon"}, {"a/b"}, {"a/b", "c"},
	{"s", "1", "x"}, {"notes"}, {"anything", "allow"}, {"inside"}, {"order", "island"}, {"ashes"}, {"matchesx"}, {"containsx", "emptyx"}, {"note", "android"}, {"not"}, {"all"}, {"in", "x"}, {"é"}, {"a", "q\"t"}, {"a", "b`t"}, {"a", ""}, {"0"}, {"a", "~tilde"}, {"a", "sl/ash"}, {"X", "Y_z"}, {"any", "b"},
	// parts that a path-cleaning or URL-minded join would fold: dot segments, empty and slash-only parts, escapes
	{"a", "..", "b"}, {"a", ".", "b"}, {"ports", ".."}, {"a/", "b"}, {".."}, {"."}, {"a", "...", "-"}, {"a~b", "~"}, {"/"}, {"a", "/", "b"}, {"a", "", "b"}, {"a", "b", ""},
	{"a", "~1"}, {"a", "~0"}, {"a", "%2F"}, {"a", "b c"}, {"A", "a"}, {"a", "010"}, {"a", "007", "x"}, {"a", "-1"}, {"a", "+1"}, {"a", "1_0"}, {"a", "0x1"},
	// odd indexes into a list of the evaluation data of the shape oracle ("s" is a list there)
	{"s", "-1"}, {"s", "-0"}, {"s", "+1"}, {"s", "0x1"}, {"s", "01"}, {"s", "1_0"}, {"s", "99999999999999999999"}, {"s", "-0x1"}, {"s", ""}, {"s", "1", "x"}, {"s", "-1", "x"}}
var rawPool = []string{"1", "0", "-1", "1.5", "foo", "a b", "", "true", "/usr/bin", "/a", "a/b", "x.y", "q\"t", "b`t", "b\\s", "é日本", "new\nline", "tab\t", "\x00", "\xff\xfe",
	"007", "1e3", "0x10", "(", "[z-a]", "a**", "a{2,1}", "not", "in", "`\r`", "a.0", "-", "~", "12.50", "-0", "a\"`b", "/", "//", "/a b", "/é/1", "contains",
	// bare words that begin with a keyword (in value-first position they stand where an operand may start)
	"/@scope/pkg", "/$defs/x", "/tmp/my file", "/x/y?z", "a\\", "\\", "C:\\dir\\", "\x01\x02", "\a\v",
	"notable", "nothing", "android", "inside", "orx", "anyone", "allx", "isx", "matchesx", "island", "note.book", "notify", "containsx", "inx", "asx"}

func (g *Gen) randTree(depth int) GExpr {
	r := g.r.Intn(100)
	if depth <= 0 {
		r = r % 50
	}
	switch {
	case r < 50:
		m := GMatch{Path: pathPool[g.r.Intn(len(pathPool))], Op: matchOps[g.r.Intn(len(matchOps))], Contains: g.r.Intn(2) == 0}
		m.Raw = rawPool[g.r.Intn(len(rawPool))]
		if g.r.Intn(8) == 0 {
			if vp := pathPool[g.r.Intn(len(pathPool))]; len(vp) > 1 && canBexprSel(vp) && !keywords[vp[0]] {
				m.ValSel, m.Raw = vp, strings.Join(vp, ".")
			}
		}
		return m
	case r < 62:
		return GNot{g.randTree(depth - 1)}
	case r < 75:
		return GAnd{g.randTree(depth - 1), g.randTree(depth - 1)}
	case r < 88:
		return GOr{g.randTree(depth - 1), g.randTree(depth - 1)}
	default:
		c := GColl{Op: []string{"all", "any"}[g.r.Intn(2)], Path: pathPool[g.r.Intn(len(pathPool))], Inner: g.randTree(depth - 1)}
		c.Mode = []string{"default", "index", "value", "indexvalue"}[g.r.Intn(4)]
		ids := []string{"x", "y", "k", "v", "i", "item", "a", "A1", "n/m", "not", "all"}
		n1, n2 := ids[g.r.Intn(len(ids))], ids[g.r.Intn(len(ids))]
		switch c.Mode {
		case "default":
			c.Def = n1
		case "index":
			c.Idx = n1
		case "value":
			c.Val = n2
		case "indexvalue":
			c.Idx, c.Val = n1, n2
		}
		return c
	}
}

func tokenize(s string) []string {
	// coarse tokenizer for mutation purposes: split on blanks, keep punctuation separate
	var toks []string
	cur := ""
	flush := func() {
		if cur != "" {
			toks = append(toks, cur)
			cur = ""
		}
	}
	for _, c := range []byte(s) {
		switch c {
		case ' ', '\t', '\n', '\r':
			flush()
		case '(', ')', '{', '}', ',', '[', ']':
			flush()
			toks = append(toks, string(c))
		default:
			cur += string(c)
		}
	}
	flush()
	return toks
}

// FR-parse, derivation part: random trees × renderings; the real parser's tree must equal the
// tree the grammar prescribes for the rendering (C15 / C16 direct oracle); plus token-level
// mutations of the rendered text (compared with the model only).
func fragParseDeriv(g *Gen, n int, o *Out) {
	for i := 0; i < n; i++ {
		t := g.randTree(3)
		text, wire, ok := g.renderTop(t)
		if !ok {
			o.count("unrenderable")
			continue
		}
		ans := emitParse(o, 0, text)
		want := "ok "
		if !strings.HasPrefix(ans, want) || ans[strings.Index(ans[3:], " ")+4:] != wire {
			kf := knownRoundTrip(text)
			o.finding(Finding{Property: "C16", Kind: "failing-input", What: "print-then-parse does not return the printed tree" + kf,
				Request: "parse 0 " + hx(text), Detail: "text=" + fmt.Sprintf("%q", text) + " want=" + wire + " got=" + ans})
		}
		if i%5 == 0 {
			shapeOracle(o, text)
		}
		// mutations
		toks := tokenize(text)
		if len(toks) == 0 {
			continue
		}
		for m := 0; m < 2; m++ {
			mt := append([]string{}, toks...)
			j := g.r.Intn(len(mt))
			switch g.r.Intn(5) {
			case 0:
				mt = append(mt[:j], mt[j+1:]...)
			case 1:
				mt = append(mt[:j], append([]string{tokenAlphabet[g.r.Intn(len(tokenAlphabet))]}, mt[j:]...)...)
			case 2:
				k := g.r.Intn(len(mt))
				mt[j], mt[k] = mt[k], mt[j]
			case 3:
				mt = append(mt[:j], append([]string{mt[j]}, mt[j:]...)...)
			case 4:
				mt[j] = tokenAlphabet[g.r.Intn(len(tokenAlphabet))]
			}
			in := strings.Join(mt, " ")
			emitParse(o, 0, in)
			o.count("mutation")
			if m == 0 && i%7 == 0 {
				shapeOracle(o, in)
			}
		}
	}
}

func knownRoundTrip(text string) string { return "" }

// FR-parse, raw bytes: byte-level mutations, invalid UTF-8, NUL, unterminated quotes, bad escapes.
func fragParseBytes(g *Gen, n int, o *Out) {
	seeds := []string{"", " ", "\xff", "a == \"\xff\"", "a == `\xff`", "\x00", "a\x00 == 1", "a == \"", "a == `", "a == \"\\", "a == \"\\x\"", "a == \"\\u12\"",
		"a == \"\\400\"", "a[\"", "a[", "a[\"x\"", "(", "((", "(a == 1", "a == 1)", "a ==", "== 1", "a == 1 and", "all a as x {", "all a as x { x == 1",
		"any a as {x == 1}", "a == 1.", "a == 01", "a == -", "a == 1x", "1 in", "1 in 2", "\"/\" == 1", "\"/a~\" == 1", "\"/a~2\" == 1", "\"a\" == 1", "\"\" == 1",
		"a == \"\xe2\x82\"", "é == 1", "a.é == 1", "\"/é\" == 1", "a\r\n==\r\n1", "a\v== 1", "a == 1\x00", "\xef\xbf\xbd == 1", "\"/\xef\xbf\xbd\" == 1",
		"a == \"\\ud800\"", "all ports as p { p != 0}", "any a as x {x == 1}", "\"/m\u00b2\" == 12", "\"/\u2163\" == 1", "a == `line one\r\nline two`", "a == `\r`", "a matches \"(\"", "foo not matches `[z-a]`", "a matches \"a**\"", "k in x", "\va == 1", "a == 1\f", "\u00a0a == 1", "a == 1\u00a0", "\u0085a == 1", "a == 1\u2003", "\u3000a == 1\u3000", "\v", "\f", "\u00a0", "\u2003 ", "a is  not  empty", "a is notempty", "a isempty", "not", "not not", "not not a == 1", "a == 1 or", "or", "and a == 1"}
	for _, s := range seeds {
		emitParse(o, 0, s)
		shapeOracle(o, s)
	}
	// rejected and accepted inputs whose length in bytes and length in characters differ, at every length up to 70
	// characters (a message that quotes or abbreviates the input must not mix the two measures)
	for _, ch := range []string{"é", "日", "😀", "e\u0301"} {
		for cnt := 1; cnt <= 70; cnt++ {
			run := strings.Repeat(ch, cnt)
			for _, in := range []string{"name == \"" + run, "foo == `ok` " + run, "a == 1 and m[\"" + run + "\" == 2", "a == \"" + run + "\""} {
				shapeOracle(o, in)
				if cnt%8 == 0 {
					emitParse(o, 0, in)
				}
			}
		}
	}
	for i := 0; i < n; i++ {
		var base string
		if g.r.Intn(3) == 0 {
			base = seeds[g.r.Intn(len(seeds))]
		} else {
			text, _, ok := g.renderTop(g.randTree(2))
			if !ok {
				continue
			}
			base = text
		}
		b := []byte(base)
		nm := 1 + g.r.Intn(3)
		for m := 0; m < nm; m++ {
			if g.r.Intn(12) == 0 {
				// non-grammar white space at either end
				pads := []string{"\v", "\f", "\u00a0", "\u0085", "\u2003", "\u3000", "\u1680"}
				if g.r.Intn(2) == 0 {
					b = append([]byte(pads[g.r.Intn(len(pads))]), b...)
				} else {
					b = append(b, []byte(pads[g.r.Intn(len(pads))])...)
				}
				continue
			}
			special := []byte{0xff, 0x00, 0xc0, 0x80, 0xe2, '"', '`', '\\', '(', ')', '[', ']', '{', '}', '/', '~', '.', ' ', '\n', 'a', '1', '-', ','}
			c := special[g.r.Intn(len(special))]
			if g.r.Intn(4) == 0 {
				c = byte(g.r.Intn(256))
			}
			switch {
			case len(b) == 0 || g.r.Intn(3) == 0:
				j := g.r.Intn(len(b) + 1)
				b = append(b[:j], append([]byte{c}, b[j:]...)...)
			case g.r.Intn(2) == 0:
				b[g.r.Intn(len(b))] = c
			default:
				j := g.r.Intn(len(b))
				b = append(b[:j], b[j+1:]...)
			}
		}
		emitParse(o, 0, string(b))
		if i%4 == 0 {
			shapeOracle(o, string(b))
		}
	}
}

// FR-create budgets (C11): for each input measure N (unlimited step count), then parse under
// budgets around N and on a geometric sweep, through both option spellings.
// safeCount / safeCreateEv: the direct calls of the budget oracle; a panic that escapes the library is a finding,
// not a crash of the harness.
func safeCount(o *Out, in string, b uint64) (cnt uint64) {
	defer func() {
		if r := recover(); r != nil {
			for _, p := range []string{"C11", "C10"} {
				o.finding(Finding{Property: p, Kind: "failing-input", What: fmt.Sprintf("the parser panics under a budget of %d: %v", b, r), Request: fmt.Sprintf("parse %d %s", b, hx(in))})
			}
		}
	}()
	var opts []grammar.Option
	if b != 0 {
		opts = append(opts, grammar.MaxExpressions(b))
	}
	_, _, cnt, _ = grammar.VerifParse([]byte(in), opts...)
	return cnt
}

func safeCreateEv(o *Out, in string, opts ...bexpr.Option) (ev *bexpr.Evaluator, err error) {
	defer func() {
		if r := recover(); r != nil {
			ev, err = nil, fmt.Errorf("panic: %v", r)
			for _, p := range []string{"C11", "C10"} {
				o.finding(Finding{Property: p, Kind: "failing-input", What: fmt.Sprintf("CreateEvaluator panics: %v", r), Request: "parse 0 " + hx(in)})
			}
		}
	}()
	return bexpr.CreateEvaluator(in, opts...)
}

func fragBudget(g *Gen, n int, o *Out) {
	var inputs []string
	inputs = append(inputs, "a == 1", "foo == 3x", "(foo == 1", "foo[1] == 2", "foo[\"a\" == 2", "1 in 5", "foo == \"abc", "foo[\xff", "", "(", "((((a == 1))))", "a ==", "all a as x { x == 1 }", "\xff", "not not not a == 1",
		"a == 1 and b == 2 or c == 3", "((a == 1) and (b == 2))", "(((((", "a[\"b\"].c is not empty",
		// unclosed parentheses before an unterminated string or quote (the error productions scan ahead here)
		"(a == \"x", "(a == 1 and b == `x", "(a == 1) and (b == \"x", "(\"", "(`", "((a == \"x\"", "(a == \"x\" ", "(a in \"", "( \"a\" in b and (c == `d",
		// a syntax error found early in a LONG input (the step count is smaller than the length in bytes)
		"foo == 1 "+strings.Repeat("garbage ", 100), "a == 1 )"+strings.Repeat(" x", 400), "foo = 1"+strings.Repeat(" and bar == 2", 60), "x"+strings.Repeat("é", 700),
		// white space that is not the grammar's, and blanks around an error, at the edges of the text
		"\u00a0foo == 1", "foo == 1\u2028", "\vfoo == \"a\"\f", "foo is empty\u0085", "  foo = 1", "\n\n foo == 1 and and", " foo == 1 ", "\tfoo == 1\n", "\r\n foo == 1 \r\n", "foo == 1\x00", "\ufefffoo == 1")
	for len(inputs) < n {
		if g.r.Intn(4) == 0 {
			ts := []string{}
			for j := 0; j < 1+g.r.Intn(5); j++ {
				ts = append(ts, tokenAlphabet[g.r.Intn(len(tokenAlphabet))])
			}
			inputs = append(inputs, strings.Join(ts, " "))
			continue
		}
		text, _, ok := g.renderTop(g.randTree(2))
		if ok {
			inputs = append(inputs, text)
		}
	}
	stepCap := uint64(300000)
	sweeps := 0
	if n >= 2000 {
		stepCap = 40000000
	}
	for _, in := range inputs {
		leave := enter("parse 0 "+hx(in), "C11", "C10", "C15")
		N := safeCount(o, in, 0)
		leave()
		if N > stepCap {
			o.count("budget:skipped-large")
			continue
		}
		unl := emitParse(o, 0, in)
		budgets := []uint64{1, 2, 3}
		for d := uint64(0); d <= 3; d++ {
			if N > d {
				budgets = append(budgets, N-d)
			}
			budgets = append(budgets, N+d)
		}
		for b := uint64(4); b < 1<<22; b *= 4 {
			budgets = append(budgets, b+uint64(g.r.Intn(3)))
		}
		budgets = append(budgets, 1<<40, 1<<63, ^uint64(0))
		for _, b := range budgets {
			if b == 0 {
				continue
			}
			lim := emitParse(o, b, in)
			// direct oracle
			cnt := safeCount(o, in, b)
			if cnt > b+1 && b != ^uint64(0) {
				o.finding(Finding{Property: "C11", Kind: "failing-input", What: fmt.Sprintf("limited parse executed %d steps under budget %d", cnt, b), Request: fmt.Sprintf("parse %d %s", b, hx(in))})
			}
			if b >= N {
				if lim != unl {
					o.finding(Finding{Property: "C11", Kind: "failing-input", What: fmt.Sprintf("budget %d >= N=%d changes the result", b, N), Request: fmt.Sprintf("parse %d %s", b, hx(in)), Detail: lim + " vs " + unl})
				}
			} else if !strings.HasSuffix(lim, "max") || !strings.HasPrefix(lim, "err") {
				o.finding(Finding{Property: "C11", Kind: "failing-input", What: fmt.Sprintf("budget %d < N=%d does not fail with the max-expressions error", b, N), Request: fmt.Sprintf("parse %d %s", b, hx(in)), Detail: lim})
			}
			// the public option
			ev, err := safeCreateEv(o, in, bexpr.WithMaxExpressions(b))
			accepted := strings.HasPrefix(lim, "ok")
			if (err == nil) != accepted || (ev != nil) != accepted {
				o.finding(Finding{Property: "C11", Kind: "failing-input", What: "WithMaxExpressions and grammar.MaxExpressions disagree", Request: fmt.Sprintf("parse %d %s", b, hx(in))})
			}
		}
		// every budget below N (real code only): the max-expressions error, whatever syntax errors the
		// parse has already logged at the point where the budget runs out
		sweepCap := uint64(3000)
		if n >= 600 {
			sweepCap = 8000
		}
		if sweeps < 24 && N <= sweepCap && N > 8 {
			sweeps++
			for b := uint64(1); b < N; b++ {
				lim := realParse(b, []byte(in))
				o.meta.Cases++
				if !strings.HasSuffix(lim, "max") || !strings.HasPrefix(lim, "err") {
					o.finding(Finding{Property: "C11", Kind: "failing-input", What: fmt.Sprintf("budget %d < N=%d does not fail with the max-expressions error", b, N), Request: fmt.Sprintf("parse %d %s", b, hx(in)), Detail: lim})
					break
				}
			}
			o.count("budget:full-sweep")
		}
		// an unlimited parse right after limited ones gives the unlimited result again
		for rep := 0; rep < 6; rep++ {
			safeCount(o, in, 3)
			safeCount(o, "a == 1", uint64(600+rep))
			again := realParse(0, []byte(in))
			if again != unl {
				o.finding(Finding{Property: "C11", Kind: "failing-history", What: "an unlimited parse after a limited one differs from the unlimited result", Request: "parse 0 " + hx(in), Detail: again + " vs " + unl})
				o.finding(Finding{Property: "C15", Kind: "failing-history", What: "a derivable string is rejected after an earlier limited parse: " + again, Request: "parse 0 " + hx(in)})
				break
			}
		}
		// repeated budgets: the last one wins, and a last budget of 0 lifts an earlier one
		{
			small := uint64(1 + len(in)%7)
			ev1, err1 := safeCreateEv(o, in, bexpr.WithMaxExpressions(small), bexpr.WithMaxExpressions(0))
			ev2, err2 := safeCreateEv(o, in, nil, bexpr.WithMaxExpressions(small), bexpr.WithTagName("json"), bexpr.WithMaxExpressions(N+3))
			ev3, err3 := safeCreateEv(o, in, bexpr.WithMaxExpressions(0), bexpr.WithMaxExpressions(N+3), bexpr.WithMaxExpressions(small))
			acc := strings.HasPrefix(unl, "ok")
			if (err1 == nil) != acc || (ev1 != nil) != acc || (err2 == nil) != acc || (ev2 != nil) != acc {
				o.finding(Finding{Property: "C11", Kind: "failing-input", What: fmt.Sprintf("a later budget of 0 (or >= N) does not override an earlier budget of %d", small), Request: "parse 0 " + hx(in)})
				o.finding(Finding{Property: "C18", Kind: "failing-input", What: fmt.Sprintf("the last of repeated WithMaxExpressions options does not win (earlier budget %d)", small), Request: "parse 0 " + hx(in)})
			}
			if small < N && (err3 == nil || ev3 != nil) {
				o.finding(Finding{Property: "C11", Kind: "failing-input", What: fmt.Sprintf("a later budget of %d < N=%d does not override earlier larger ones", small, N), Request: fmt.Sprintf("parse %d %s", small, hx(in))})
			}
		}
		// zero is unlimited through the public option
		ev, err := safeCreateEv(o, in, bexpr.WithMaxExpressions(0))
		if (err == nil) != strings.HasPrefix(unl, "ok") || (ev != nil) != (err == nil) {
			o.finding(Finding{Property: "C11", Kind: "failing-input", What: "WithMaxExpressions(0) is not unlimited", Request: "parse 0 " + hx(in)})
		}
	}
}
