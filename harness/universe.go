package main

// The typed universe of the correspondence check: a zoo of declared Go types, type constructors
// applied by reflect, and a value generator that favours boundary values and nil at every
// nillable position.  Everything random derives from one *Rand.

import (
	"encoding/json"
	"math"
	"reflect"
	"strings"
	"unsafe"
)

type MyInt int
type MyInt8 int8
type MyInt64 int64
type MyUint16 uint16
type MyUint64 uint64
type MyFloat64 float64
type MyFloat32 float32
type MyBool bool
type MyStr string
type MyBytes []byte
type Octet uint8
type MyOctets []Octet
type MyInts []int
type MyStrs []string
type MyMap map[string]int

type Inner struct {
	X      int
	Y      string `bexpr:"why"`
	Hidden string `bexpr:"-" json:"hid"`
	secret int
	Opt    string  `bexpr:",omitempty"`
	J      int     `json:"jay"`
	Both   string  `bexpr:"bx" json:"-"`
	F32    float32 `alt:"f"`
	U8     uint8
	Ok     MyBool
}

type Outer struct {
	A     int
	B     string
	Name  MyStr
	In    Inner
	PIn   *Inner
	Ins   []Inner
	PIns  []*Inner
	M     map[string]Inner
	MI    map[string]interface{}
	Any   interface{}
	Ints  []int
	PInts []*int
	Strs  MyStrs
	Arr   [3]int8
	Bytes []byte
	MB    MyBytes
	Oct   MyOctets
	Dig   [4]byte
	Raw   json.RawMessage
	F     float64
	U     uint64
	I64   int64
	Num   json.Number
	Nums  []json.Number
	IS    []interface{}
	MM    map[string]map[string]bool
	MIK   map[int]string
	MSK   map[MyStr]int
	MAK   map[interface{}]int
	W     Wrap
	PW    *Wrap
	Ch    chan int
	Fn    func()
	Cx    complex128
	hid   []string
	X     string `bexpr:"-"`
	Shad  int    `bexpr:"A2"`
}

// Tagged: maps reachable only through tag-renamed fields (absent-key classification must use
// the evaluator's tag name and hook for the parent lookup too)
type Tagged struct {
	Meta   map[string]string      `bexpr:"meta" json:"jmeta"`
	Labels map[string]interface{} `bexpr:"labels"`
	W      Wrap
	Plain  map[string]int
}

// embedded structs: promoted fields are NOT reachable by pointerstructure (only direct fields)
type Creds struct {
	Token  string `bexpr:"-" json:"-" étiq:"-"`
	APIKey string `bexpr:"key" json:"jkey" étiq:"ukey"`
	Owner  string
}

type Account struct {
	Creds
	ID   int
	Ptag string `pointer:"pname" bexpr:"bname"`
}

type HiddenHolder struct {
	Vis    int
	Secret string `bexpr:"-"`
	AltSec string `json:"-"`
	UniSec string `étiq:"-"`
	priv   map[string]int
	Nest   *HiddenHolder
	List   []HiddenHolder
	Tagged string `bexpr:"vis2" json:"jvis2" étiq:"uvis2"`
}

var scalarTypes = []reflect.Type{
	reflect.TypeOf(false), reflect.TypeOf(int(0)), reflect.TypeOf(int8(0)), reflect.TypeOf(int16(0)),
	reflect.TypeOf(int32(0)), reflect.TypeOf(int64(0)), reflect.TypeOf(uint(0)), reflect.TypeOf(uint8(0)),
	reflect.TypeOf(uint16(0)), reflect.TypeOf(uint32(0)), reflect.TypeOf(uint64(0)),
	reflect.TypeOf(float32(0)), reflect.TypeOf(float64(0)), reflect.TypeOf(""),
	reflect.TypeOf(MyInt(0)), reflect.TypeOf(MyInt8(0)), reflect.TypeOf(MyInt64(0)), reflect.TypeOf(MyUint16(0)),
	reflect.TypeOf(MyUint64(0)), reflect.TypeOf(MyFloat64(0)), reflect.TypeOf(MyFloat32(0)),
	reflect.TypeOf(MyBool(false)), reflect.TypeOf(MyStr("")), reflect.TypeOf(json.Number("")),
}

var oddTypes = []reflect.Type{
	reflect.TypeOf(uintptr(0)), reflect.TypeOf(complex64(0)), reflect.TypeOf(complex128(0)),
	reflect.TypeOf((chan int)(nil)), reflect.TypeOf((func())(nil)), reflect.TypeOf(unsafe.Pointer(nil)),
}

var structTypes = []reflect.Type{
	reflect.TypeOf(Inner{}), reflect.TypeOf(Outer{}), reflect.TypeOf(HiddenHolder{}), reflect.TypeOf(Wrap{}), reflect.TypeOf(Tagged{}), reflect.TypeOf(Account{}), reflect.TypeOf(Creds{}),
}

var ifaceType = reflect.TypeOf((*interface{})(nil)).Elem()

var keyTypes = []reflect.Type{
	reflect.TypeOf(""), reflect.TypeOf(""), reflect.TypeOf(""), reflect.TypeOf(MyStr("")),
	reflect.TypeOf(int(0)), reflect.TypeOf(int8(0)), reflect.TypeOf(uint16(0)), reflect.TypeOf(uint64(0)),
	reflect.TypeOf(false), reflect.TypeOf(float64(0)), reflect.TypeOf(float32(0)), ifaceType,
	reflect.TypeOf(MyInt(0)),
}

// randType builds a random type of bounded depth.
func (g *Gen) randType(depth int) reflect.Type {
	r := g.r.Intn(100)
	if depth <= 0 || r < 35 {
		switch {
		case g.r.Intn(12) == 0:
			return oddTypes[g.r.Intn(len(oddTypes))]
		case g.r.Intn(8) == 0:
			return ifaceType
		}
		return scalarTypes[g.r.Intn(len(scalarTypes))]
	}
	switch {
	case r < 50:
		return reflect.SliceOf(g.randType(depth - 1))
	case r < 56:
		return reflect.ArrayOf(g.r.Intn(4), g.randType(depth-1))
	case r < 72:
		return reflect.MapOf(keyTypes[g.r.Intn(len(keyTypes))], g.randType(depth-1))
	case r < 80:
		t := g.randType(depth - 1)
		if t.Kind() == reflect.Interface {
			return t // pointer-to-interface is outside the modelled universe
		}
		return reflect.PtrTo(t)
	case r < 90:
		return structTypes[g.r.Intn(len(structTypes))]
	case r < 94:
		return ifaceType
	default:
		return g.randStructOf(depth - 1)
	}
}

var fieldNames = []string{"A", "B", "Name", "X", "Val", "Key", "Foo", "Bar", "K", "V", "Item", "Map"}

func (g *Gen) randStructOf(depth int) reflect.Type {
	n := 1 + g.r.Intn(4)
	perm := g.r.Perm(len(fieldNames))
	var fs []reflect.StructField
	for i := 0; i < n; i++ {
		f := reflect.StructField{Name: fieldNames[perm[i]], Type: g.randType(depth)}
		switch g.r.Intn(8) {
		case 0:
			f.Tag = `bexpr:"-"`
		case 1:
			f.Tag = reflect.StructTag(`bexpr:"` + strings.ToLower(f.Name) + `"`)
		case 2:
			f.Tag = reflect.StructTag(`json:"j` + strings.ToLower(f.Name) + `"`)
		case 3:
			f.Tag = `bexpr:",omitempty"`
		}
		fs = append(fs, f)
	}
	return reflect.StructOf(fs)
}

var interestingInts = []int64{0, 1, -1, 2, 7, 42, 127, 128, -128, -129, 255, 256, 32767, 32768, -32768, 65535, 65536,
	math.MaxInt32, math.MinInt32, math.MaxInt32 + 1, 1 << 53, 1<<53 + 1, math.MaxInt64, math.MinInt64, math.MaxInt64 - 1}
var interestingUints = []uint64{0, 1, 2, 7, 42, 255, 256, 65535, 65536, math.MaxUint32, 1 << 53, 1<<53 + 1, math.MaxInt64,
	math.MaxInt64 + 1, math.MaxUint64, math.MaxUint64 - 1}
var interestingFloats = []float64{0, math.Copysign(0, -1), 1, -1, 0.5, 1.1, 1.2, 0.1, 1e10, 1e-10, 3.4028234663852886e38,
	1.401298464324817e-45, math.MaxFloat64, math.SmallestNonzeroFloat64, 2.2250738585072014e-308, 1 << 53, 1<<53 + 2,
	16777216, 16777217, math.Inf(1), math.Inf(-1), math.NaN(), 42, 7, 100, 255.5}
var interestingStrings = []string{"", "a", "b", "foo", "bar", "baz", "abc", "1", "0", "42", "7", "-1", "true", "false", "t", "1.5",
	"hello world", "x y", "é", "日本", "/usr/bin", "/a/b", "a/b", "co:lon", "a.b", "q\"uote", "back`tick", "back\\slash",
	"new\nline", "\x00nul", "\xff\xfe", "tab\t", "~0~1", "A", "Key", "0x10", "1e3", "Inf", "NaN", " ", "<invalid Value>",
	// strings that begin like a JSON pointer but are not one under the grammar's segment class (a widened class, or an
	// error production on the way, would change how their double-quoted spelling is read)
	"v1.2", "eth0.100", "rack.7", "a.0.b", "x.010", "k.1.2.3", "/@scope/pkg", "/$defs/x", "/a b", "/tmp/my file", "/x/y?z", "/a#b", "/a=b", "/a,b", "/a+b", "/a%20b", "/a/*", "/a\\b", "/é/ü", "/a//b", "/", "//", "/a/", "a\\", "C:\\dir\\"}
var interestingKeys = []string{"a", "b", "foo", "bar", "k", "x", "0", "1", "2", "", "A", "X", "co:lon", "a/b", "a.b", "é", "~", "key with space", "true", "1.5", "-1"}

func (g *Gen) pickInt(bits int) int64 {
	var v int64
	if g.r.Intn(3) == 0 {
		v = g.r.Int63()>>uint(g.r.Intn(63)) - int64(g.r.Intn(3))
		if g.r.Intn(2) == 0 {
			v = -v
		}
	} else {
		v = interestingInts[g.r.Intn(len(interestingInts))]
	}
	switch bits {
	case 8:
		return int64(int8(v))
	case 16:
		return int64(int16(v))
	case 32:
		return int64(int32(v))
	}
	return v
}

func (g *Gen) pickUint(bits int) uint64 {
	var v uint64
	if g.r.Intn(3) == 0 {
		v = g.r.Uint64() >> uint(g.r.Intn(64))
	} else {
		v = interestingUints[g.r.Intn(len(interestingUints))]
	}
	switch bits {
	case 8:
		return uint64(uint8(v))
	case 16:
		return uint64(uint16(v))
	case 32:
		return uint64(uint32(v))
	}
	return v
}

func (g *Gen) pickFloat() float64 {
	if g.r.Intn(4) == 0 {
		return math.Float64frombits(g.r.Uint64())
	}
	if g.r.Intn(4) == 0 {
		return float64(g.r.Intn(2000)-1000) / 8
	}
	return interestingFloats[g.r.Intn(len(interestingFloats))]
}

func (g *Gen) pickString() string {
	if g.r.Intn(6) == 0 {
		n := g.r.Intn(6)
		b := make([]byte, n)
		for i := range b {
			switch g.r.Intn(5) {
			case 0:
				b[i] = byte(g.r.Intn(256))
			default:
				const alpha = "abcxyz019 _-/.~\"`\\"
				b[i] = alpha[g.r.Intn(len(alpha))]
			}
		}
		return string(b)
	}
	return interestingStrings[g.r.Intn(len(interestingStrings))]
}

func (g *Gen) pickJSONNumber() json.Number {
	opts := []string{"0", "1", "-1", "42", "7", "1.5", "-0", "1e3", "9223372036854775807", "9223372036854775808",
		"-9223372036854775808", "1e400", "0.1", "abc", "", "1.0", "100", "0x10", "1_0", "+1", " 1", "NaN", "Inf"}
	return json.Number(opts[g.r.Intn(len(opts))])
}

// randValue builds a random value of type t.
func (g *Gen) randValue(t reflect.Type, depth int) reflect.Value {
	v := reflect.New(t).Elem()
	switch t.Kind() {
	case reflect.Bool:
		v.SetBool(g.r.Intn(2) == 0)
	case reflect.Int, reflect.Int64:
		v.SetInt(g.pickInt(64))
	case reflect.Int8:
		v.SetInt(g.pickInt(8))
	case reflect.Int16:
		v.SetInt(g.pickInt(16))
	case reflect.Int32:
		v.SetInt(g.pickInt(32))
	case reflect.Uint, reflect.Uint64, reflect.Uintptr:
		v.SetUint(g.pickUint(64))
	case reflect.Uint8:
		v.SetUint(g.pickUint(8))
	case reflect.Uint16:
		v.SetUint(g.pickUint(16))
	case reflect.Uint32:
		v.SetUint(g.pickUint(32))
	case reflect.Float32:
		f := g.pickFloat()
		if g.r.Intn(3) == 0 {
			f = float64(math.Float32frombits(g.r.Uint32()))
		}
		v.SetFloat(float64(float32(f)))
	case reflect.Float64:
		v.SetFloat(g.pickFloat())
	case reflect.Complex64, reflect.Complex128:
		v.SetComplex(complex(1, 2))
	case reflect.String:
		if t == reflect.TypeOf(json.Number("")) {
			v.SetString(string(g.pickJSONNumber()))
		} else {
			v.SetString(g.pickString())
		}
	case reflect.Ptr:
		if depth <= 0 || g.r.Intn(4) == 0 {
			return v // nil
		}
		p := reflect.New(t.Elem())
		p.Elem().Set(g.randValue(t.Elem(), depth-1))
		v.Set(p)
	case reflect.Slice:
		if g.r.Intn(8) == 0 {
			return v // nil slice
		}
		n := g.r.Intn(4)
		if depth <= 0 {
			n = g.r.Intn(2)
		}
		s := reflect.MakeSlice(t, n, n)
		for i := 0; i < n; i++ {
			s.Index(i).Set(g.randValue(t.Elem(), depth-1))
		}
		v.Set(s)
	case reflect.Array:
		for i := 0; i < t.Len(); i++ {
			v.Index(i).Set(g.randValue(t.Elem(), depth-1))
		}
	case reflect.Map:
		if g.r.Intn(8) == 0 {
			return v // nil map
		}
		m := reflect.MakeMap(t)
		n := g.r.Intn(4)
		if depth <= 0 {
			n = g.r.Intn(2)
		}
		for i := 0; i < n; i++ {
			k := g.randKey(t.Key())
			if !k.IsValid() {
				continue
			}
			m.SetMapIndex(k, g.randValue(t.Elem(), depth-1))
		}
		v.Set(m)
	case reflect.Struct:
		for i := 0; i < t.NumField(); i++ {
			f := v.Field(i)
			fv := g.randValue(t.Field(i).Type, depth-1)
			if f.CanSet() {
				f.Set(fv)
			} else {
				// unexported field: write through unsafe so hidden content varies too
				reflect.NewAt(f.Type(), unsafe.Pointer(f.UnsafeAddr())).Elem().Set(fv)
			}
		}
	case reflect.Interface:
		if g.r.Intn(5) == 0 || t.NumMethod() != 0 {
			return v // nil interface
		}
		dt := g.randType(depth - 1)
		for dt.Kind() == reflect.Interface {
			dt = scalarTypes[g.r.Intn(len(scalarTypes))]
		}
		v.Set(g.randValue(dt, depth-1))
	case reflect.Chan:
		if g.r.Intn(2) == 0 {
			v.Set(reflect.MakeChan(t, 0))
		}
	case reflect.Func:
		if g.r.Intn(2) == 0 && t == reflect.TypeOf((func())(nil)) {
			v.Set(reflect.ValueOf(func() {}))
		}
	case reflect.UnsafePointer:
	}
	return v
}

func (g *Gen) randKey(t reflect.Type) reflect.Value {
	k := reflect.New(t).Elem()
	switch t.Kind() {
	case reflect.String:
		k.SetString(interestingKeys[g.r.Intn(len(interestingKeys))])
	case reflect.Int, reflect.Int8, reflect.Int16, reflect.Int32, reflect.Int64:
		k.SetInt(int64(g.r.Intn(5) - 1))
	case reflect.Uint, reflect.Uint8, reflect.Uint16, reflect.Uint32, reflect.Uint64:
		k.SetUint(uint64(g.r.Intn(4)))
	case reflect.Bool:
		k.SetBool(g.r.Intn(2) == 0)
	case reflect.Float32, reflect.Float64:
		fs := []float64{0, 1, 1.5, -1, math.Copysign(0, -1), 0.1}
		k.SetFloat(fs[g.r.Intn(len(fs))])
	case reflect.Interface:
		switch g.r.Intn(4) {
		case 0:
			k.Set(reflect.ValueOf(g.r.Intn(3)))
		case 1:
			k.Set(reflect.ValueOf(MyStr(interestingKeys[g.r.Intn(len(interestingKeys))])))
		default:
			k.Set(reflect.ValueOf(interestingKeys[g.r.Intn(len(interestingKeys))]))
		}
	default:
		return reflect.Value{}
	}
	return k
}

// randJSONDoc builds a JSON-like document the way encoding/json would decode it.
func (g *Gen) randJSONDoc(depth int, useNumber bool) interface{} {
	r := g.r.Intn(100)
	if depth <= 0 {
		r = r % 60
	}
	switch {
	case r < 6:
		return nil
	case r < 16:
		return g.r.Intn(2) == 0
	case r < 40:
		if useNumber {
			return g.pickJSONNumber()
		}
		return g.pickFloat()
	case r < 60:
		return g.pickString()
	case r < 78:
		n := g.r.Intn(4)
		a := make([]interface{}, n)
		for i := range a {
			a[i] = g.randJSONDoc(depth-1, useNumber)
		}
		return a
	default:
		n := g.r.Intn(5)
		m := map[string]interface{}{}
		for i := 0; i < n; i++ {
			m[interestingKeys[g.r.Intn(len(interestingKeys))]] = g.randJSONDoc(depth-1, useNumber)
		}
		return m
	}
}

// randDatum: the top-level datum handed to Evaluate.
func (g *Gen) randDatum() interface{} {
	switch r := g.r.Intn(100); {
	case r < 2:
		return nil
	case r < 40:
		// a JSON object with a few entries at the top
		m := map[string]interface{}{}
		n := 2 + g.r.Intn(4)
		use := g.r.Intn(2) == 0
		for i := 0; i < n; i++ {
			m[interestingKeys[g.r.Intn(len(interestingKeys))]] = g.randJSONDoc(3, use)
		}
		return m
	case r < 45:
		return g.randJSONDoc(3, g.r.Intn(2) == 0)
	case r < 68:
		return g.randValue(reflect.TypeOf(Outer{}), 3).Interface()
	case r < 72:
		v := g.randValue(reflect.TypeOf(Outer{}), 3)
		p := reflect.New(v.Type())
		p.Elem().Set(v)
		return p.Interface()
	case r < 78:
		return g.randValue(reflect.TypeOf(HiddenHolder{}), 3).Interface()
	case r < 90:
		// map[string]T for a random T
		return g.randValue(reflect.MapOf(reflect.TypeOf(""), g.randType(2)), 3).Interface()
	default:
		t := g.randType(3)
		if t.Kind() == reflect.Interface {
			return g.randJSONDoc(2, false)
		}
		return g.randValue(t, 3).Interface()
	}
}
