package main

// Expression trees of the bexpr language, their rendering to text under random layout / spelling
// choices, and the syntax tree the grammar prescribes for the rendered text.

import (
	"fmt"
	"math/rand"
	"regexp"
	"strconv"
	"strings"
	"unicode/utf8"
)

type Gen struct {
	r *rand.Rand
	// noMutate: generated selectors are exactly the enumerated (resolving) paths
	noMutate bool
}

func newGen(seed int64) *Gen { return &Gen{r: rand.New(rand.NewSource(seed))} }

type GExpr interface{}

type GNot struct{ E GExpr }
type GAnd struct{ L, R GExpr }
type GOr struct{ L, R GExpr }

// GMatch: Op ∈ eq ne in notin empty notempty matches notmatches
type GMatch struct {
	Path []string
	Op   string
	Raw  string // literal (unused for empty/notempty)
	// style hints (0 = let the renderer choose)
	SelStyle int // 1 dotted/bracket, 2 json pointer
	LitStyle int // 1 bare, 2 double quoted, 3 backtick
	Contains bool
	// ForceDouble: spell the literal in double quotes even if it is JSON-pointer shaped
	ForceDouble bool
	// ValSel: write the literal as a selector in the expression syntax (the grammar reads an unquoted literal through
	// its Selector rule and takes the printed selector as the literal's text); Raw is then strings.Join(ValSel, ".")
	ValSel []string
}

type GColl struct {
	Op            string // all | any
	Path          []string
	Mode          string // default index value indexvalue
	Def, Idx, Val string
	Inner         GExpr
	SelStyle      int
}

var identRe = regexp.MustCompile(`^[a-zA-Z][a-zA-Z0-9_/]*$`)
var digitsRe = regexp.MustCompile(`^[0-9]+$`)
var numberRe = regexp.MustCompile(`^-?(0|[1-9][0-9]*)(\.[0-9]+)?$`)
var ptrSegRe = regexp.MustCompile(`^[\pL\pN\-_.~:|]+$`)
var ptrShapedRe = regexp.MustCompile(`^(/[\pL\pN\-_.~:|]+)*$`)
var bareSelRe = regexp.MustCompile(`^[a-zA-Z][a-zA-Z0-9_/]*(\.([a-zA-Z][a-zA-Z0-9_/]*|[0-9]+))*$`)

var keywords = map[string]bool{"not": true, "all": true, "any": true, "in": true, "is": true, "as": true, "and": true, "or": true,
	"contains": true, "matches": true, "empty": true}

func canBacktick(s string) bool {
	return !strings.ContainsAny(s, "`\r") && utf8.ValidString(s)
}

// quoteDouble renders s as a double-quoted literal the bexpr grammar accepts (no raw or escaped
// double quote inside: `\"` is written `\x22`).
func quoteDouble(s string) string {
	q := strconv.Quote(s)
	inner := q[1 : len(q)-1]
	inner = strings.ReplaceAll(inner, `\"`, `\x22`)
	return `"` + inner + `"`
}

// quoteLit renders a string literal; style 2 = double, 3 = backtick, 0 = random admissible.
func (g *Gen) quoteLit(s string, style int) string {
	if style == 0 {
		style = 2 + g.r.Intn(2)
	}
	if style == 3 && canBacktick(s) {
		return "`" + s + "`"
	}
	return quoteDouble(s)
}

func ptrEscape(p string) string {
	return strings.ReplaceAll(strings.ReplaceAll(p, "~", "~0"), "/", "~1")
}

func canPointer(parts []string) bool {
	if len(parts) == 0 {
		return false
	}
	for _, p := range parts {
		if !ptrSegRe.MatchString(ptrEscape(p)) {
			return false
		}
	}
	return true
}

func canBexprSel(parts []string) bool {
	return len(parts) > 0 && identRe.MatchString(parts[0])
}

func (g *Gen) sp() string { // optional whitespace
	switch g.r.Intn(6) {
	case 0:
		return " "
	case 1:
		return "  "
	case 2:
		return "\t"
	case 3:
		return "\n"
	}
	return ""
}

func (g *Gen) ws() string { // mandatory whitespace
	switch g.r.Intn(8) {
	case 0:
		return "  "
	case 1:
		return "\t"
	case 2:
		return "\n"
	case 3:
		return " \r\n"
	}
	return " "
}

// renderSelector returns the text and the wire form of the Selector node the parser must build.
// ok=false when the path cannot be spelled at all.
func (g *Gen) renderSelector(parts []string, style int) (text, wire string, ok bool) {
	if len(parts) == 1 && parts[0] == "" {
		// the segment-less JSON pointer `""` selects the member with the empty name
		return `""`, "( sel ptr " + hx("") + " )", true
	}
	bexprOK, ptrOK := canBexprSel(parts), canPointer(parts)
	if bexprOK && keywords[parts[0]] {
		bexprOK = false // keep the expected-tree oracle exact: keyword-named roots only as JSON pointers
	}
	if !bexprOK && !ptrOK {
		return "", "", false
	}
	if style == 0 {
		style = 1
		if g.r.Intn(4) == 0 {
			style = 2
		}
	}
	if style == 2 && !ptrOK {
		style = 1
	}
	if style == 1 && !bexprOK {
		style = 2
	}
	var w strings.Builder
	if style == 2 {
		var sb strings.Builder
		sb.WriteString(`"`)
		for _, p := range parts {
			sb.WriteString("/" + ptrEscape(p))
		}
		sb.WriteString(`"`)
		w.WriteString("( sel ptr")
		for _, p := range parts {
			w.WriteString(" " + hx(p))
		}
		w.WriteString(" )")
		return sb.String(), w.String(), true
	}
	var sb strings.Builder
	sb.WriteString(parts[0])
	for _, p := range parts[1:] {
		switch {
		case identRe.MatchString(p) && g.r.Intn(4) != 0:
			sb.WriteString("." + p)
		case digitsRe.MatchString(p) && g.r.Intn(4) != 0:
			sb.WriteString("." + p)
		default:
			sb.WriteString("[" + g.sp() + g.quoteLit(p, 0) + g.sp() + "]")
		}
	}
	w.WriteString("( sel bexpr")
	for _, p := range parts {
		w.WriteString(" " + hx(p))
	}
	w.WriteString(" )")
	return sb.String(), w.String(), true
}

// renderValue renders a literal whose Raw must be `raw`; bare=true reports that the text ends in
// a bare number (which must be followed by blank, ')' or EOF).
func (g *Gen) renderValueM(m GMatch) (text string, bareNumber bool) {
	if m.ForceDouble {
		return quoteDouble(m.Raw), false
	}
	if m.ValSel != nil {
		if text, _, ok := g.renderSelector(m.ValSel, 1); ok {
			return text, false
		}
	}
	return g.renderValue(m.Raw, m.LitStyle)
}

func (g *Gen) renderValue(raw string, style int) (text string, bareNumber bool) {
	if style == 0 {
		style = 1 + g.r.Intn(3)
	}
	if style == 1 {
		if numberRe.MatchString(raw) {
			return raw, true
		}
		if bareSelRe.MatchString(raw) && !keywords[strings.SplitN(raw, ".", 2)[0]] {
			return raw, false
		}
		style = 2 + g.r.Intn(2)
	}
	if style == 2 && ptrShapedRe.MatchString(raw) {
		// a double-quoted JSON-pointer-shaped literal is read as a selector by the grammar
		// (Value <- Selector / …); spell it with backticks instead
		style = 3
	}
	if style == 3 && !canBacktick(raw) {
		style = 2
	}
	if style == 3 {
		return "`" + raw + "`", false
	}
	return quoteDouble(raw), false
}

var opText = map[string]string{"eq": "==", "ne": "!="}

type rendered struct {
	text string
	wire string
	// endsBare: text ends with a bare number literal
	endsBare bool
}

// level: 0 = OrExpression position, 1 = AndExpression, 2 = NotExpression / atom
func (g *Gen) render(e GExpr, level int) (rendered, bool) {
	redundant := g.r.Intn(10) == 0
	switch n := e.(type) {
	case GNot:
		in, ok := g.render(n.E, 2)
		if !ok {
			return rendered{}, false
		}
		// the parser folds `not not e` into `e`
		w := "( not " + in.wire + " )"
		if strings.HasPrefix(in.wire, "( not ") {
			w = strings.TrimSuffix(strings.TrimPrefix(in.wire, "( not "), " )")
		}
		return g.wrap(rendered{"not" + g.ws() + in.text, w, in.endsBare}, redundant), true
	case GAnd:
		l, ok1 := g.render(n.L, 2)
		r, ok2 := g.render(n.R, 1)
		if !ok1 || !ok2 {
			return rendered{}, false
		}
		out := rendered{l.text + g.ws() + "and" + g.ws() + r.text, "( and " + l.wire + " " + r.wire + " )", r.endsBare}
		return g.wrap(out, redundant || level > 1), true
	case GOr:
		l, ok1 := g.render(n.L, 1)
		r, ok2 := g.render(n.R, 0)
		if !ok1 || !ok2 {
			return rendered{}, false
		}
		out := rendered{l.text + g.ws() + "or" + g.ws() + r.text, "( or " + l.wire + " " + r.wire + " )", r.endsBare}
		return g.wrap(out, redundant || level > 0), true
	case GMatch:
		sel, selw, ok := g.renderSelector(n.Path, n.SelStyle)
		if !ok {
			return rendered{}, false
		}
		var out rendered
		switch n.Op {
		case "eq", "ne":
			v, bare := g.renderValueM(n)
			out = rendered{sel + g.sp() + opText[n.Op] + g.sp() + v, "", bare}
		case "in", "notin":
			neg := ""
			if n.Op == "notin" {
				neg = "not" + g.ws()
			}
			v, bare := g.renderValueM(n)
			if n.Contains {
				out = rendered{sel + g.ws() + neg + "contains" + g.ws() + v, "", bare}
			} else {
				out = rendered{v + g.ws() + neg + "in" + g.ws() + sel, "", false}
			}
		case "matches", "notmatches":
			neg := ""
			if n.Op == "notmatches" {
				neg = "not" + g.ws()
			}
			v, bare := g.renderValueM(n)
			out = rendered{sel + g.ws() + neg + "matches" + g.ws() + v, "", bare}
		case "empty":
			out = rendered{sel + g.ws() + "is" + g.ws() + "empty", "", false}
		case "notempty":
			out = rendered{sel + g.ws() + "is" + g.ws() + "not" + g.ws() + "empty", "", false}
		default:
			return rendered{}, false
		}
		val := "-"
		if n.Op != "empty" && n.Op != "notempty" {
			val = hx(n.Raw)
		}
		out.wire = "( match " + selw + " " + n.Op + " " + val + " )"
		return g.wrap(out, redundant), true
	case GColl:
		sel, selw, ok := g.renderSelector(n.Path, n.SelStyle)
		if !ok {
			return rendered{}, false
		}
		in, ok := g.render(n.Inner, 0)
		if !ok {
			return rendered{}, false
		}
		var ids string
		switch n.Mode {
		case "default":
			ids = n.Def
		case "index":
			ids = n.Idx + g.sp() + "," + g.sp() + "_"
		case "value":
			ids = "_" + g.sp() + "," + g.sp() + n.Val
		case "indexvalue":
			ids = n.Idx + g.sp() + "," + g.sp() + n.Val
		default:
			return rendered{}, false
		}
		closing := g.sp()
		if in.endsBare && closing == "" {
			closing = " "
		}
		text := n.Op + g.ws() + sel + g.ws() + "as" + g.ws() + ids + g.sp() + "{" + g.sp() + in.text + closing + "}"
		def, idx, val := "", "", ""
		switch n.Mode {
		case "default":
			def = n.Def
		case "index":
			idx = n.Idx
		case "value":
			val = n.Val
		case "indexvalue":
			idx, val = n.Idx, n.Val
		}
		wire := fmt.Sprintf("( coll %s %s ( bind %s %s %s %s ) %s )", n.Op, selw, n.Mode, hx(def), hx(idx), hx(val), in.wire)
		return g.wrap(rendered{text, wire, false}, redundant || level > 0), true
	}
	return rendered{}, false
}

func (g *Gen) wrap(r rendered, paren bool) rendered {
	if !paren {
		return r
	}
	return rendered{"(" + g.sp() + r.text + g.sp() + ")", r.wire, false}
}

// renderTop renders a whole expression (Input rule: optional blanks around it).
func (g *Gen) renderTop(e GExpr) (text, wire string, ok bool) {
	r, ok := g.render(e, 0)
	if !ok {
		return "", "", false
	}
	return g.sp() + r.text + g.sp(), r.wire, true
}
