package main

// C18, first and last clause as direct oracles on the real code ("options given to CreateEvaluator
// govern every later Evaluate call … a value-transformation hook's replacement value is what the
// operators see"):
//   * HOOK: evaluating e on a document in which sub-values are wrapped (Wrap{V: x} / &Wrap{V: x}),
//     with the unwrapping hook, must equal evaluating e on the plain document without a hook — on
//     EVERY lookup the evaluator performs, including the parent lookup that classifies an absent key
//     and the lookups through quantifier aliases;
//   * TAG NAME: evaluating e on a struct whose fields are renamed by the tag T, with WithTagName(T),
//     must equal evaluating e on an isomorphic untagged struct whose Go field names are those tag
//     names, with no option.
// Both are instances of "the model with the option ≡ the model without it on the translated datum",
// theorems C18.hook_replacement / C08.renamed_only_by_tag; here they are checked on the real code.

import (
	"fmt"
	"reflect"
	"strings"

	bexpr "github.com/hashicorp/go-bexpr"
)

// wrapDoc wraps map-entry values of a JSON-like document at random (never list elements: `in` and
// `contains` compare list elements without going through Get, so no hook is applied to them; never
// nil: the hook would return an invalid Value).
func (g *Gen) wrapDoc(v interface{}, top bool) interface{} {
	switch x := v.(type) {
	case map[string]interface{}:
		m := map[string]interface{}{}
		for _, k := range sortedKeys(x) {
			c := g.wrapDoc(x[k], false)
			if c != nil {
				switch g.r.Intn(5) {
				case 0:
					c = Wrap{V: c}
				case 1:
					c = &Wrap{V: c}
				}
			}
			m[k] = c
		}
		return m
	case []interface{}:
		a := make([]interface{}, len(x))
		for i := range x {
			a[i] = g.wrapDoc(x[i], false)
			if _, isMap := a[i].(map[string]interface{}); !isMap {
				a[i] = x[i] // scalars and lists inside lists stay as they are
			}
		}
		return a
	}
	return v
}

func sortedKeys(m map[string]interface{}) []string {
	ks := make([]string, 0, len(m))
	for k := range m {
		ks = append(ks, k)
	}
	sortStrings(ks)
	return ks
}

// two-tag family: TT is reachable under `json` by J-names and under `bexpr` by B-names; PJ / PB are
// the untagged mirrors whose Go field names are those names.
type TTIn struct {
	X int               `json:"Jx" bexpr:"Bx"`
	K map[string]string `json:"Jk" bexpr:"Bk"`
}
type TT struct {
	A     int                    `json:"Ja" bexpr:"Ba"`
	M     map[string]interface{} `json:"Jm" bexpr:"Bm"`
	L     []TTIn                 `json:"Jl" bexpr:"Bl"`
	P     *TTIn                  `json:"Jp" bexpr:"Bp"`
	S     string                 `json:"Js" bexpr:"Bs"`
	Plain map[string]int
}
type PJIn struct {
	Jx int
	Jk map[string]string
}
type PJ struct {
	Ja    int
	Jm    map[string]interface{}
	Jl    []PJIn
	Jp    *PJIn
	Js    string
	Plain map[string]int
}
type PBIn struct {
	Bx int
	Bk map[string]string
}
type PB struct {
	Ba    int
	Bm    map[string]interface{}
	Bl    []PBIn
	Bp    *PBIn
	Bs    string
	Plain map[string]int
}

func (g *Gen) twoTagData() (TT, PJ, PB) {
	in := func() (TTIn, PJIn, PBIn) {
		x := g.r.Intn(3)
		var k map[string]string
		if g.r.Intn(4) != 0 {
			k = map[string]string{}
			for i := g.r.Intn(3); i > 0; i-- {
				k[interestingKeys[g.r.Intn(len(interestingKeys))]] = g.pickString()
			}
		}
		return TTIn{x, k}, PJIn{x, k}, PBIn{x, k}
	}
	var t TT
	var j PJ
	var b PB
	t.A = g.r.Intn(3)
	j.Ja, b.Ba = t.A, t.A
	if g.r.Intn(5) != 0 {
		m, _ := g.randJSONDoc(2, false).(map[string]interface{})
		if m == nil {
			m = map[string]interface{}{"a": 1.0, "k": map[string]interface{}{"x": "y"}}
		}
		t.M, j.Jm, b.Bm = m, m, m
	}
	for i := g.r.Intn(3); i > 0; i-- {
		a, c, d := in()
		t.L, j.Jl, b.Bl = append(t.L, a), append(j.Jl, c), append(b.Bl, d)
	}
	if g.r.Intn(3) != 0 {
		a, c, d := in()
		t.P, j.Jp, b.Bp = &a, &c, &d
	}
	t.S = g.pickString()
	j.Js, b.Bs = t.S, t.S
	if g.r.Intn(2) == 0 {
		pl := map[string]int{"a": 1}
		t.Plain, j.Plain, b.Plain = pl, pl, pl
	}
	return t, j, b
}

// unknownGovernsAbsent: the unknown value stands for a key missing from a map at every depth and in every map
// representation, with no hook: the outcome equals the plain outcome on the document that holds the value there.
func unknownGovernsAbsent(o *Out) {
	mk := func(rep, depth int, leaf map[string]interface{}) interface{} {
		var cur interface{} = leaf
		if rep == 1 {
			t := map[string]string{}
			for k, v := range leaf {
				t[k] = fmt.Sprint(v)
			}
			cur = t
		}
		for d := depth; d > 0; d-- {
			cur = map[string]interface{}{fmt.Sprintf("p%d", d): cur, "name": "web"}
		}
		return cur
	}
	for depth := 0; depth <= 3; depth++ {
		sel := ""
		for d := 1; d <= depth; d++ {
			sel += fmt.Sprintf("p%d.", d)
		}
		for rep := 0; rep < 2; rep++ {
			for _, u := range []interface{}{"v1", "", "5", "true"} {
				without := mk(rep, depth, map[string]interface{}{"env": "prod"})
				with := mk(rep, depth, map[string]interface{}{"env": "prod", "version": u})
				for _, form := range []string{`%sversion == "v1"`, `%sversion != "v1"`, `%sversion is empty`, `%sversion is not empty`, `%sversion matches "^v"`, `%sversion == 5`, `"v" in %sversion`, `%sversion not matches "1"`, `%senv == prod and %sversion == "v1"`} {
					text := strings.ReplaceAll(form, "%s", sel)
					want := evalText(o, nil, text, with)
					got := evalText(o, []OptSpec{{Kind: "unk", Unk: u}}, text, without)
					o.count("govern:unknown-absent:" + norm(got))
					if norm(got) != norm(want) {
						o.finding(Finding{Property: "C18", Kind: "failing-input", What: fmt.Sprintf("the unknown value %q does not stand for the key missing at depth %d: %s, but %s on the document that holds it there", u, depth, got, want), Request: lastReq(o), Detail: text})
						o.finding(Finding{Property: "C05", Kind: "failing-input", What: fmt.Sprintf("an absent key under the unknown value %q at depth %d gives %s, the value itself gives %s", u, depth, got, want), Request: lastReq(o), Detail: text})
					}
				}
			}
		}
	}
}

func optsGovernLookups(g *Gen, o *Out, n int) {
	unknownGovernsAbsent(o)
	for i := 0; i < n; i++ {
		// ---- hook
		doc, _ := g.randJSONDoc(3, false).(map[string]interface{})
		if doc == nil || len(doc) == 0 {
			doc = map[string]interface{}{"a": map[string]interface{}{"b": 1.0, "l": []interface{}{1.0, "x"}}, "k": "v"}
		}
		wrapped := g.wrapDoc(doc, true)
		root := reflect.ValueOf(doc)
		var paths []PathInfo
		enumPaths(root, "bexpr", nil, 4, &paths)
		for k := 0; k < 6; k++ {
			e := g.genExpr(root, "bexpr", paths, 2, false)
			text, _, ok := g.renderTop(e)
			if !ok {
				continue
			}
			plain := evalText(o, nil, text, doc)
			hooked := evalText(o, []OptSpec{{Kind: "hook", Hook: "unwrap"}}, text, wrapped)
			o.count("govern:hook:" + norm(plain))
			if norm(plain) != norm(hooked) {
				o.finding(Finding{Property: "C18", Kind: "failing-input", What: fmt.Sprintf("the hook's replacement value is not what every lookup sees: %s on the wrapped document with the unwrapping hook, %s on the plain document", hooked, plain),
					Request: lastReq(o), Detail: text})
			}
		}
		// ---- a hook that replaces EVERY value (also nil interface values, nil pointers, nil maps) by the int 42:
		// a one-part selector of a present key / field then behaves as if the datum held 42 there
		{
			var np *string
			var nm map[string]int
			holders := []interface{}{
				map[string]interface{}{"a": nil, "b": 1, "c": np, "d": nm, "e": []interface{}{}, "f": "x"},
				struct {
					A interface{}
					B int
					C *string
					D map[string]int
					E []int
					F string
				}{nil, 1, nil, nil, nil, "x"},
			}
			for hi, h := range holders {
				keys := [][]string{{"a", "b", "c", "d", "e", "f"}, {"A", "B", "C", "D", "E", "F"}}[hi]
				key := keys[g.r.Intn(len(keys))]
				m := GMatch{Path: []string{key}, Op: []string{"eq", "ne", "eq", "ne", "eq", "in", "empty", "matches"}[g.r.Intn(8)], Raw: []string{"42", "41", "42", "0x2a", "x", ""}[g.r.Intn(6)], Contains: g.r.Intn(2) == 0}
				var e GExpr = m
				if g.r.Intn(3) == 0 {
					e = GAnd{GMatch{Path: []string{keys[g.r.Intn(len(keys))]}, Op: "eq", Raw: "42"}, m}
				}
				text, _, ok := g.renderTop(e)
				if !ok {
					continue
				}
				want := evalText(o, nil, text, map[string]interface{}{"a": 42, "b": 42, "c": 42, "d": 42, "e": 42, "f": 42, "A": 42, "B": 42, "C": 42, "D": 42, "E": 42, "F": 42})
				got := evalText(o, []OptSpec{{Kind: "hook", Hook: "const42"}}, text, h)
				o.count("govern:hook-const:" + norm(want))
				if norm(want) != norm(got) {
					o.finding(Finding{Property: "C18", Kind: "failing-input", What: fmt.Sprintf("a hook that replaces every value by 42 is not what the operators see for %s: %s, expected %s", key, got, want), Request: lastReq(o), Detail: text})
				}
			}
		}
		// ---- an unknown value is a no-op when every selector resolves (explicit nils — JSON null —
		// resolve): quantifier-free combinations of matches over enumerated paths only
		g.noMutate = true
		var nilPaths []PathInfo
		for _, p := range paths {
			if !unwrapIP(p.Val).IsValid() {
				nilPaths = append(nilPaths, p) // resolves, to an explicit nil (JSON null)
			}
		}
		for k := 0; k < 6; k++ {
			var e GExpr = g.genMatch(paths, g.r.Intn(6) == 0)
			if len(nilPaths) > 0 && g.r.Intn(2) == 0 {
				e = GMatch{Path: nilPaths[g.r.Intn(len(nilPaths))].Parts, Op: matchOps[g.r.Intn(len(matchOps))], Raw: []string{"x", "0", "", "true", "a.*"}[g.r.Intn(5)], Contains: g.r.Intn(2) == 0}
			}
			for d := g.r.Intn(3); d > 0; d-- {
				switch g.r.Intn(3) {
				case 0:
					e = GNot{e}
				case 1:
					e = GAnd{e, g.genMatch(paths, false)}
				default:
					e = GOr{g.genMatch(paths, false), e}
				}
			}
			text, _, ok := g.renderTop(e)
			if !ok || len(paths) == 0 {
				continue
			}
			r0 := evalText(o, nil, text, doc)
			for _, u := range []interface{}{"x", 0, true, nil, []interface{}{"x"}, map[string]interface{}{"a": 1}} {
				if g.r.Intn(2) == 0 {
					continue
				}
				ru := evalText(o, []OptSpec{{Kind: "unk", Unk: u}}, text, doc)
				o.count("govern:unknown-neutral:" + norm(r0))
				if norm(ru) != norm(r0) {
					o.finding(Finding{Property: "C18", Kind: "failing-input", What: fmt.Sprintf("every selector resolves, yet WithUnknownValue(%#v) changes the outcome from %s to %s", u, r0, ru), Request: lastReq(o), Detail: text})
					o.finding(Finding{Property: "C05", Kind: "failing-input", What: fmt.Sprintf("every selector resolves, yet the unknown value %#v changes the outcome from %s to %s", u, r0, ru), Request: lastReq(o), Detail: text})
				}
			}
		}
		g.noMutate = false
		// ---- tag name
		t, j, b := g.twoTagData()
		for _, side := range []struct {
			tag   string
			plain interface{}
		}{{"json", j}, {"bexpr", b}} {
			proot := reflect.ValueOf(side.plain)
			var pp []PathInfo
			enumPaths(proot, "none", nil, 4, &pp)
			for k := 0; k < 5; k++ {
				e := g.genExpr(proot, "none", pp, 2, false)
				text, _, ok := g.renderTop(e)
				if !ok {
					continue
				}
				ref := evalText(o, nil, text, side.plain)
				var opts []OptSpec
				if side.tag != "bexpr" || g.r.Intn(2) == 0 {
					opts = []OptSpec{{Kind: "tag", Tag: side.tag}}
				}
				got := evalText(o, opts, text, t)
				o.count("govern:tag:" + norm(ref))
				if norm(ref) != norm(got) {
					o.finding(Finding{Property: "C18", Kind: "failing-input", What: fmt.Sprintf("the tag name %q does not govern every lookup: %s on the tagged struct, %s on the untagged mirror", side.tag, got, ref),
						Request: lastReq(o), Detail: text})
				}
			}
		}
		// ---- a tag name is used exactly as given: names that differ from every tag key of the struct (by case,
		// by a blank, by an accent) select NO tag, so all of them must behave like a name no field carries
		{
			troot := reflect.ValueOf(t)
			var gp []PathInfo
			enumPaths(troot, "no such tag key", nil, 4, &gp)
			for k := 0; k < 4; k++ {
				e := g.genExpr(troot, "no such tag key", gp, 1, false)
				text, _, ok := g.renderTop(e)
				if !ok {
					continue
				}
				ref := evalText(o, []OptSpec{{Kind: "tag", Tag: "nomatch"}}, text, t)
				odd := []string{"JSON", "Json", "json ", " json", "bexpr ", "BEXPR", "Bexpr", "jsón", "json\t", "j"}[g.r.Intn(10)]
				got := evalText(o, []OptSpec{{Kind: "tag", Tag: odd}}, text, t)
				o.count("govern:tag-exact:" + norm(ref))
				if norm(ref) != norm(got) {
					o.finding(Finding{Property: "C18", Kind: "failing-input", What: fmt.Sprintf("the tag name %q is not used as given: %s, but %s under a tag name no field carries", odd, got, ref), Request: lastReq(o), Detail: text})
					o.finding(Finding{Property: "C08", Kind: "failing-input", What: fmt.Sprintf("the tag name %q is not used as given: %s, but %s under a tag name no field carries", odd, got, ref), Request: lastReq(o), Detail: text})
				}
			}
		}
	}
}

// shapeShiftHistory (C13, C06): ONE evaluator meets data in which the SAME path holds values of
// different Go shapes from call to call — list, string-keyed map, typed slice, typed map, array,
// scalar, nil, absent — in random order; every call must equal a fresh evaluator's.  A syntax tree
// or option record specialised in place to the shape of the first datum shows up here.
func shapeShiftHistory(g *Gen, o *Out, n int) {
	for i := 0; i < n; i++ {
		a, b := float64(g.r.Intn(4)), float64(4+g.r.Intn(4))
		variants := []interface{}{
			[]interface{}{a, b}, map[string]interface{}{"0": a, "1": b}, map[string]interface{}{"k": a, "x": b}, []int{int(a), int(b)}, map[string]int{"a": int(a), "b": int(b)},
			[2]float64{a, b}, []interface{}{}, map[string]interface{}{}, "str", nil, b, []interface{}{map[string]interface{}{"f": a}, map[string]interface{}{"f": b}},
			map[string]interface{}{"p": map[string]interface{}{"f": a}, "q": map[string]interface{}{"f": b}}, []string{"0", "x"}, map[string]string{"x": "0", "0": "x"},
			[]interface{}{map[string]interface{}{"x/y": a, "t~1": []interface{}{b}}, map[string]interface{}{"x/y": b}}, map[string]interface{}{"k": map[string]interface{}{"x/y": a, "t~1": []interface{}{a}}},
			[]interface{}{[]interface{}{a}, []interface{}{b}}, map[int]string{1: "a"}, []interface{}{a, nil, "s"},
		}
		var data []interface{}
		for _, v := range variants {
			data = append(data, map[string]interface{}{"Items": v, "x": b, "k": "0", "n": map[string]interface{}{"Items": v}})
		}
		data = append(data, map[string]interface{}{"x": b, "k": "0"}, map[string]interface{}{"Items": []interface{}{b}, "n": map[string]interface{}{}})
		names := []string{"x", "k", "v", "Items", "n"}
		n1, n2 := names[g.r.Intn(len(names))], names[g.r.Intn(len(names))]
		lit := []string{fmt.Sprint(int(a)), fmt.Sprint(int(b)), "0", "x", "a"}[g.r.Intn(5)]
		bodyName := []string{n1, n2, "x", "k"}[g.r.Intn(4)]
		bodies := []GExpr{
			GMatch{Path: []string{bodyName}, Op: []string{"eq", "ne"}[g.r.Intn(2)], Raw: lit},
			GMatch{Path: []string{bodyName, "f"}, Op: "eq", Raw: lit},
			GMatch{Path: []string{bodyName, "x/y"}, Op: "eq", Raw: lit, SelStyle: 1},
			GMatch{Path: []string{bodyName, "t~1", "0"}, Op: "ne", Raw: lit},
			GColl{Op: "any", Path: []string{bodyName}, Mode: "default", Def: "y", Inner: GMatch{Path: []string{"y"}, Op: "eq", Raw: lit}},
			GAnd{GMatch{Path: []string{n1}, Op: "ne", Raw: lit}, GMatch{Path: []string{"x"}, Op: "eq", Raw: fmt.Sprint(int(b))}},
		}
		collPath := [][]string{{"Items"}, {"n", "Items"}}[g.r.Intn(2)]
		forms := []GColl{{Mode: "default", Def: n1}, {Mode: "indexvalue", Idx: n1, Val: n2}, {Mode: "index", Idx: n1}, {Mode: "value", Val: n1}}
		c := forms[g.r.Intn(len(forms))]
		c.Op, c.Path, c.Inner = []string{"any", "all"}[g.r.Intn(2)], collPath, bodies[g.r.Intn(len(bodies))]
		var e GExpr = c
		switch g.r.Intn(6) {
		case 0:
			e = GMatch{Path: collPath, Op: []string{"in", "notin", "empty", "notempty"}[g.r.Intn(4)], Raw: lit, Contains: g.r.Intn(2) == 0}
		case 1:
			e = GMatch{Path: append(append([]string{}, collPath...), []string{"0", "a", "x", "zz"}[g.r.Intn(4)]), Op: matchOps[g.r.Intn(6)], Raw: lit}
		case 2:
			e = GOr{c, GMatch{Path: []string{n1}, Op: "eq", Raw: lit}}
		}
		text, _, ok := g.renderTop(e)
		if !ok {
			continue
		}
		var opts []OptSpec
		if g.r.Intn(4) == 0 {
			opts = append(opts, OptSpec{Kind: "unk", Unk: []interface{}{"u", []interface{}{a}, nil}[g.r.Intn(3)]})
		}
		ev, _ := create(text, opts)
		if ev == nil {
			continue
		}
		var hist []string
		for h, hl := 0, 3+g.r.Intn(6); h < hl; h++ {
			di := g.r.Intn(len(data))
			if g.r.Intn(5) < 3 {
				di = g.r.Intn(6) // mostly the iterable shapes: list, maps, typed slice, typed map, array
			}
			d := data[di]
			got := safeEvaluate(ev, d)
			// C05, closed form: `<collPath>.zz <op> lit` is the absent-key table when the value at the path is a
			// string-keyed map, and an error when it is anything else or the path itself is absent — whatever
			// shapes the earlier data of this evaluator (or of any other) had at that path
			if m, isM := e.(GMatch); isM && len(opts) == 0 && len(m.Path) == len(collPath)+1 && m.Path[len(m.Path)-1] == "zz" {
				want5 := "E"
				if di < len(variants) {
					if rv := reflect.ValueOf(variants[di]); rv.IsValid() && rv.Kind() == reflect.Map && rv.Type().Key().Kind() == reflect.String {
						want5 = absentTable[m.Op]
					}
				}
				if norm(got) != want5 && got != "P" {
					o.finding(Finding{Property: "C05", Kind: "failing-history", What: fmt.Sprintf("%v %s: %s, documented %s (call %d of a history over data whose value at the parent path changes shape)", m.Path, m.Op, got, want5, h), Request: "eval ( opts ) " + hx(text) + " " + serAny(d) + " ( re )", Detail: text})
				}
			}
			want := evalText(o, opts, text, d)
			hist = append(hist, got)
			o.count("shapeshift:" + norm(got))
			if got != want {
				o.finding(Finding{Property: "C13", Kind: "failing-history", What: fmt.Sprintf("call %d on a used evaluator returns %s, a fresh evaluator %s (the same path held values of different shapes; history %v)", h, got, want, hist), Request: lastReq(o), Detail: text})
				if _, isColl := e.(GColl); isColl {
					o.finding(Finding{Property: "C06", Kind: "failing-history", What: fmt.Sprintf("the fold depends on the shapes earlier data had at the collection path: %s vs fresh %s (history %v)", got, want, hist), Request: lastReq(o), Detail: text})
				}
			}
		}
	}
}

// filterHistory (C17, C13): ONE Filter is executed on a sequence of containers of different Go types
// (named and unnamed slices, arrays of different lengths and element types, maps of different key and
// element types, interface-typed elements, inputs that make it fail); every result — its dynamic
// type included — must be what a Filter created for that call alone returns, and the inputs stay
// untouched (also the part of a slice's backing array beyond its length).
type Items []map[string]interface{}

func filterHistory(g *Gen, o *Out, n int) {
	exec := func(f *bexpr.Filter, d interface{}) (ans string) {
		defer func() {
			if r := recover(); r != nil {
				ans = "P " + fmt.Sprint(r)
			}
		}()
		res, err := f.Execute(d)
		if err != nil {
			return "E"
		}
		return fmt.Sprintf("ok %T %s", res, canonResult(res))
	}
	for i := 0; i < n; i++ {
		mk := func(x int, keep bool) map[string]interface{} {
			return map[string]interface{}{"x": x, "keep": keep, "s": fmt.Sprint(x)}
		}
		var rows []map[string]interface{}
		for j, k := 0, 3+g.r.Intn(5); j < k; j++ {
			rows = append(rows, mk(g.r.Intn(3), g.r.Intn(3) != 0))
		}
		backing := make([]map[string]interface{}, len(rows), len(rows)+4)
		copy(backing, rows)
		ifaces := make([]interface{}, len(rows))
		structs := make([]Inner, len(rows))
		ptrs := make([]*Inner, len(rows))
		byKey := map[string]map[string]interface{}{}
		byInt := map[int]interface{}{}
		for j, r := range rows {
			ifaces[j] = r
			structs[j] = Inner{J: r["x"].(int), Y: fmt.Sprint(r["x"])}
			ptrs[j] = &structs[j]
			byKey[fmt.Sprintf("k%d", j)] = r
			byInt[j] = r
		}
		var arr3 [3]map[string]interface{}
		copy(arr3[:], rows)
		var arr2 [2]interface{}
		arr2[0], arr2[1] = rows[0], structs[0]
		conts := []interface{}{rows, Items(rows), backing[:len(rows)-1], ifaces, structs, ptrs, byKey, byInt, arr3, arr2, [1]int{7}, []int{1, 2}, nil, "str", map[string]int{"a": 1},
			[]interface{}{rows[0], nil, structs[0]}, []*Inner{ptrs[0], nil}, MyMap{"a": 1}, []Items{Items(rows)}, [0]Inner{}, []Inner{}}
		// mostly containers whose elements the expression can judge (maps with x/keep/s: 0..9; Inner structs: 4, 5, 19, 20)
		fam := g.r.Intn(3)
		text := []string{"x == 1", "keep == true", "x != 0 and keep == true", "not (x == 2)", "s in `12`"}[g.r.Intn(5)]
		pick := []int{0, 1, 2, 3, 6, 7, 8, 0, 1, 2}
		if fam == 1 {
			text = []string{"J == 1", "why != `1`", "J != 0 or why == `2`"}[g.r.Intn(3)]
			pick = []int{4, 5, 19, 20, 16, 4, 5}
		}
		f, err := bexpr.CreateFilter(text)
		if err != nil || f == nil {
			continue
		}
		var hist []string
		for h, hl := 0, 3+g.r.Intn(6); h < hl; h++ {
			ci := pick[g.r.Intn(len(pick))]
			if fam == 2 || g.r.Intn(5) == 0 {
				ci = g.r.Intn(len(conts))
			}
			d := conts[ci]
			before := serAny(d)
			var tailBefore string
			if ci == 2 {
				tailBefore = serAny(backing)
			}
			got := exec(f, d)
			fresh, _ := bexpr.CreateFilter(text)
			want := exec(fresh, d)
			hist = append(hist, fmt.Sprintf("%T", d))
			o.meta.Cases++
			o.count("filter-history:" + strings.SplitN(got, " ", 2)[0])
			req := "filter " + hx(text) + " " + before + " ( re )"
			if serAny(d) != before || (ci == 2 && serAny(backing) != tailBefore) {
				o.finding(Finding{Property: "C17", Kind: "failing-input", What: "Execute modified its input (or the backing array behind it)", Request: req, Detail: text})
				o.finding(Finding{Property: "C13", Kind: "failing-input", What: "Execute modified its input (or the backing array behind it)", Request: req, Detail: text})
				copy(backing, rows)
			}
			if res, err := safeExecuteFilter(f, d); err == nil && res != nil && d != nil {
				rv, dv := reflect.ValueOf(res), reflect.ValueOf(d)
				if (rv.Kind() == reflect.Slice || rv.Kind() == reflect.Map) && rv.Kind() == dv.Kind() && rv.Len() > 0 && rv.Pointer() == dv.Pointer() {
					o.finding(Finding{Property: "C17", Kind: "failing-input", What: fmt.Sprintf("Execute returned its input %T itself (same backing store), not a new container", d), Request: req, Detail: text})
				}
			}
			if got != want {
				what := fmt.Sprintf("call %d of one Filter (inputs so far %v) returns %.160s, a Filter created for this call returns %.160s", h, hist, got, want)
				o.finding(Finding{Property: "C17", Kind: "failing-history", What: what, Request: req, Detail: text})
				o.finding(Finding{Property: "C13", Kind: "failing-history", What: what, Request: req, Detail: text})
			}
			if g.r.Intn(3) == 0 && len(structs) > 1 {
				// the caller changes the pointees in place between two calls: a verdict remembered per element
				// pointer would be stale
				j := g.r.Intn(len(structs))
				structs[j].J, structs[j].Y = (structs[j].J+1)%3, fmt.Sprint((structs[j].J+1)%3)
				rows[g.r.Intn(len(rows))]["x"] = g.r.Intn(3)
			}
			copy(backing, rows)
		}
	}
}
