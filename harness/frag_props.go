package main

// Property-specific fragments: each emits `eval` / `filter` / `dump` request lines for the model
// (correspondence) and additionally applies the property's DIRECT oracle to the real code,
// recording a Finding with a replayable request when the real code breaks the property.

import (
	"encoding/json"
	"fmt"
	"math"
	"reflect"
	"strconv"
	"strings"
	"unsafe"

	bexpr "github.com/hashicorp/go-bexpr"
)

func init() {
	fragments["conn"] = fragConn
	fragments["neg"] = fragNeg
	fragments["absent"] = fragAbsent
	fragments["unroll"] = fragUnroll
	fragments["spelling"] = fragSpelling
	fragments["hidden"] = fragHidden
	fragments["matrix"] = fragMatrix
	fragments["scalar-eq"] = fragScalarEq
	fragments["filter"] = fragFilter
	fragments["dump"] = fragDump
	fragments["opts"] = fragOpts
	fragments["hist"] = fragHist
	fragments["det"] = fragDet
	fragments["quote-rt"] = fragQuoteRT
}

// evalText evaluates a rendered expression on the real code and emits the model request.
func evalText(o *Out, opts []OptSpec, text string, datum interface{}) string {
	req, ans := evalCase(opts, text, datum)
	for _, m := range mutations {
		o.finding(m)
	}
	mutations = nil
	o.emit(req, ans)
	o.count("outcome:" + ans)
	return ans
}

func evalG(g *Gen, o *Out, opts []OptSpec, e GExpr, datum interface{}) (ans, text string, ok bool) {
	text, _, ok = g.renderTop(e)
	if !ok {
		return "", "", false
	}
	return evalText(o, opts, text, datum), text, true
}

func norm(ans string) string {
	if ans == "E0" || ans == "E1" {
		return "E"
	}
	return ans
}

func datumAndPaths(g *Gen, tag string) (interface{}, reflect.Value, []PathInfo) {
	datum := g.randDatum()
	var paths []PathInfo
	var root reflect.Value
	if datum != nil {
		root = reflect.ValueOf(datum)
		enumPaths(root, tag, nil, 4, &paths)
	}
	return datum, root, paths
}

// ---------------------------------------------------------------- C03

func connTable(op, a, b string) string {
	switch op {
	case "and":
		if a == "F" || a == "E" {
			return a
		}
		return b
	case "or":
		if a == "T" || a == "E" {
			return a
		}
		return b
	}
	return "?"
}

func notOf(a string) string {
	switch a {
	case "T":
		return "F"
	case "F":
		return "T"
	}
	return a
}

func fragConn(g *Gen, n int, o *Out) {
	// operands whose selectors have colliding flat renderings ("a/b" vs a → b, "x.y" vs x → y)
	for i := 0; i < n/10+2; i++ {
		v1, v2 := []string{"p", "1"}[g.r.Intn(2)], []string{"q", "2"}[g.r.Intn(2)]
		datum := map[string]interface{}{"labels": map[string]interface{}{"team/env": v1, "team": map[string]interface{}{"env": v2}, "x.y": v1, "x": map[string]interface{}{"y": v2}}}
		pp := [][2][]string{{{"labels", "team/env"}, {"labels", "team", "env"}}, {{"labels", "x.y"}, {"labels", "x", "y"}}}[g.r.Intn(2)]
		A := GMatch{Path: pp[0], Op: "eq", Raw: v1, LitStyle: 2}
		B := GMatch{Path: pp[1], Op: "eq", Raw: v2, LitStyle: 2}
		for _, e := range []GExpr{GAnd{A, B}, GAnd{B, A}, GNot{GOr{GNot{A}, GNot{B}}}, GOr{GNot{A}, B}} {
			r, text, ok := evalG(g, o, nil, e, datum)
			if ok && r != "T" {
				o.finding(Finding{Property: "C03", Kind: "failing-input", What: "composite of two true operands gives " + r + " (operands are true on their own)", Request: lastReq(o), Detail: text})
			}
		}
	}
	for i := 0; i < n; i++ {
		datum, root, paths := datumAndPaths(g, "bexpr")
		A := g.genExpr(root, "bexpr", paths, 1, false)
		B := g.genExpr(root, "bexpr", paths, 1, false)
		ra, ta, ok1 := evalG(g, o, nil, A, datum)
		rb, tb, ok2 := evalG(g, o, nil, B, datum)
		if !ok1 || !ok2 || ra == "P" || rb == "P" || ra == "CE" || rb == "CE" {
			continue
		}
		a, b := norm(ra), norm(rb)
		o.count("pair:" + a + b)
		check := func(name string, e GExpr, want string) {
			r, text, ok := evalG(g, o, nil, e, datum)
			if !ok || r == "P" {
				return
			}
			if norm(r) != want {
				o.finding(Finding{Property: "C03", Kind: "failing-input", What: name + ": outcome " + r + ", table says " + want + " (A=" + ra + ", B=" + rb + ")",
					Request: lastReq(o), Detail: fmt.Sprintf("A=%q B=%q expr=%q", ta, tb, text)})
			}
			if r == "E1" {
				o.finding(Finding{Property: "C09", Kind: "failing-input", What: "error returned together with true", Request: lastReq(o), Detail: fmt.Sprintf("expr=%q", text)})
			}
		}
		check("A and B", GAnd{A, B}, connTable("and", a, b))
		check("A or B", GOr{A, B}, connTable("or", a, b))
		check("not A", GNot{A}, notOf(a))
		check("not not A", GNot{GNot{A}}, a)
		check("not (A and B)", GNot{GAnd{A, B}}, notOf(connTable("and", a, b)))
		check("(not A) or (not B)", GOr{GNot{A}, GNot{B}}, notOf(connTable("and", a, b)))
		check("not (A or B)", GNot{GOr{A, B}}, notOf(connTable("or", a, b)))
		check("(not A) and (not B)", GAnd{GNot{A}, GNot{B}}, notOf(connTable("or", a, b)))
	}
}

func lastReq(o *Out) string { return o.last }

// ---------------------------------------------------------------- C04

var negOf = map[string]string{"eq": "ne", "in": "notin", "empty": "notempty", "matches": "notmatches"}

// negSystematic: the complement law on the complete product of scalar kind x literal class
// (equal, nearby, other base / spelling, out of range for the kind, midpoint of two float32
// values, ill-typed …) x container shape x operator spelling — not left to random choice.
func negSystematic(g *Gen, o *Out) {
	pair := func(pos GMatch, datum interface{}, what string) {
		neg := pos
		neg.Op = negOf[pos.Op]
		rp, tp, ok1 := evalG(g, o, nil, pos, datum)
		rn, _, ok2 := evalG(g, o, nil, neg, datum)
		if !ok1 || !ok2 || rp == "P" || rn == "P" {
			return
		}
		o.count("systematic:" + pos.Op + ":" + norm(rp))
		if notOf(norm(rp)) != norm(rn) {
			o.finding(Finding{Property: "C04", Kind: "failing-input", What: fmt.Sprintf("%s: %s gives %s but %s gives %s", what, pos.Op, rp, neg.Op, rn), Request: lastReq(o), Detail: tp})
		}
		if pos.Op == "in" {
			flip := pos
			flip.Contains = !pos.Contains
			if rf, _, ok3 := evalG(g, o, nil, flip, datum); ok3 && rf != rp {
				o.finding(Finding{Property: "C04", Kind: "failing-input", What: fmt.Sprintf("%s: in gives %s but contains gives %s", what, rp, rf), Request: lastReq(o), Detail: tp})
			}
		}
	}
	for _, e := range scalarElems() {
		ev := reflect.ValueOf(e.val)
		if ev.Kind() == reflect.Struct || ev.Kind() == reflect.Slice || ev.Kind() == reflect.Complex128 {
			continue
		}
		t := ev.Type()
		other := g.randValue(t, 1)
		sl := reflect.MakeSlice(reflect.SliceOf(t), 2, 2)
		sl.Index(0).Set(other)
		sl.Index(1).Set(ev)
		arr := reflect.New(reflect.ArrayOf(2, t)).Elem()
		arr.Index(0).Set(ev)
		arr.Index(1).Set(other)
		// interface-typed lists in which an element the operator cannot compare (a nested object, a nested list)
		// comes before / after the matching element: `in` and `not in` must fail or succeed together
		datum := map[string]interface{}{"v": e.val, "s": sl.Interface(), "a": arr.Interface(), "i": []interface{}{other.Interface(), e.val},
			"j": []interface{}{other.Interface(), map[string]interface{}{"k": "v"}, e.val}, "k": []interface{}{e.val, []interface{}{1}, other.Interface()},
			// runs of the same kind whose LATER element is the zero value of the kind (what a failed conversion of the
			// literal leaves behind), in interface lists, interface arrays and typed slices
			"z": []interface{}{e.val, reflect.Zero(t).Interface()}, "zz": [3]interface{}{other.Interface(), reflect.Zero(t).Interface(), reflect.Zero(t).Interface()},
			"zt": func() interface{} {
				s := reflect.MakeSlice(reflect.SliceOf(t), 3, 3)
				s.Index(0).Set(ev)
				return s.Interface()
			}()}
		// matches / not matches on every string-like and byte-sequence shape of the value
		if ev.Kind() == reflect.String || (ev.Kind() == reflect.Slice && ev.Type().Elem().Kind() == reflect.Uint8) {
			bs := []byte("1")
			if ev.Kind() == reflect.String {
				bs = []byte(ev.String())
			}
			seq := map[string]interface{}{"v": e.val, "b": bs, "mb": MyBytes(bs), "oc": MyOctets{Octet('1')}, "pb": &bs, "ib": interface{}(bs), "ar": [1]byte{'1'}, "st": string(bs), "ms": MyStr(bs)}
			for _, key := range []string{"v", "b", "mb", "oc", "pb", "ib", "ar", "st", "ms"} {
				for _, pat := range []string{"^1", "1$", "^$", ".*", "Value", "uint8", "^x", "(", "[z-a]", ""} {
					pair(GMatch{Path: []string{key}, Op: "matches", Raw: pat, LitStyle: 3}, seq, "matches on "+key+" of "+e.name)
				}
			}
		}
		lits := append(g.literalsFor(ev), g.literalsFor(other)...)
		for _, lit := range lits {
			pair(GMatch{Path: []string{"v"}, Op: "eq", Raw: lit, LitStyle: 2}, datum, e.name)
			for _, c := range []string{"s", "a", "i", "j", "k", "z", "zz", "zt"} {
				pair(GMatch{Path: []string{c}, Op: "in", Raw: lit, LitStyle: 2, Contains: g.r.Intn(2) == 0}, datum, c+" of "+e.name)
			}
		}
	}
}

func fragNeg(g *Gen, n int, o *Out) {
	negSystematic(g, o)
	bareLiteralTable(o)
	for i := 0; i < n; i++ {
		datum, _, paths := datumAndPaths(g, "bexpr")
		var opts []OptSpec
		m, ok := g.genMatch(paths, g.r.Intn(8) == 0).(GMatch)
		if !ok {
			continue
		}
		pos := m
		if p, isNeg := map[string]string{"ne": "eq", "notin": "in", "notempty": "empty", "notmatches": "matches"}[m.Op]; isNeg {
			pos.Op = p
		}
		if pos.Op == "matches" && g.r.Intn(3) == 0 {
			pos.Raw = []string{"(", "[z-a]", "a{2,1}", "eu-(1", "\\"}[g.r.Intn(5)]
			if g.r.Intn(2) == 0 && len(pos.Path) > 0 {
				// … on an absent key
				datum = map[string]interface{}{"Labels": map[string]interface{}{"a": "b"}, "L": map[string]string{}}
				pos.Path = [][]string{{"Labels", "zone"}, {"L", "z"}}[g.r.Intn(2)]
			}
		}
		neg := pos
		neg.Op = negOf[pos.Op]
		rp, tp, ok1 := evalG(g, o, opts, pos, datum)
		rn, tn, ok2 := evalG(g, o, opts, neg, datum)
		if !ok1 || !ok2 || rp == "P" || rn == "P" {
			continue
		}
		o.count("pos:" + pos.Op + ":" + norm(rp))
		if notOf(norm(rp)) != norm(rn) {
			o.finding(Finding{Property: "C04", Kind: "failing-input", What: fmt.Sprintf("%s gives %s but %s gives %s", pos.Op, rp, neg.Op, rn), Request: lastReq(o), Detail: fmt.Sprintf("%q vs %q", tp, tn)})
		}
		// not (…) around the counterpart
		rw, _, ok3 := evalG(g, o, opts, GNot{pos}, datum)
		if ok3 && rw != "P" && norm(rw) != norm(rn) {
			o.finding(Finding{Property: "C04", Kind: "failing-input", What: fmt.Sprintf("not(%s)=%s differs from %s=%s", pos.Op, rw, neg.Op, rn), Request: lastReq(o)})
		}
		if pos.Op == "in" {
			a, b := pos, pos
			if g.r.Intn(3) == 0 {
				// literal spelled in double quotes whatever its shape (also JSON-pointer shaped ones)
				a.Raw = []string{"/etc", "/a", "/usr/bin", "/1", "a", "x y", ""}[g.r.Intn(7)]
				b.Raw = a.Raw
				a.ForceDouble, b.ForceDouble = true, true
				// a datum that holds the literal (and its slash-less form)
				datum = map[string]interface{}{"Paths": []string{a.Raw, "x"}, "P2": []interface{}{strings.TrimPrefix(a.Raw, "/")}, "S": a.Raw + "!"}
				a.Path = [][]string{{"Paths"}, {"P2"}, {"S"}}[g.r.Intn(3)]
				b.Path = a.Path
			}
			if g.r.Intn(5) == 0 {
				// a BARE literal that begins with a keyword, in both operand orders
				w := []string{"notable", "nothing", "android", "inside", "orx", "anyone", "allx", "isx", "matchesx", "island", "notify", "containsx", "inx"}[g.r.Intn(13)]
				a.Raw, b.Raw, a.LitStyle, b.LitStyle, a.ForceDouble, b.ForceDouble = w, w, 1, 1, false, false
				datum = map[string]interface{}{"S": []string{"x", w}, "T": []interface{}{w[3:], "y"}, "U": w + "!", w[3:]: []string{"x"}, w[2:]: "q"}
				a.Path = [][]string{{"S"}, {"T"}, {"U"}}[g.r.Intn(3)]
				b.Path = a.Path
				for _, op := range []string{"in", "notin"} {
					a.Op, b.Op = op, op
					a.Contains, b.Contains = true, false
					ra, _, oka := evalG(g, o, opts, a, datum)
					rb, _, okb := evalG(g, o, opts, b, datum)
					if oka && okb && ra != rb {
						o.finding(Finding{Property: "C04", Kind: "failing-input", What: fmt.Sprintf("contains and in differ on the bare literal %s (%s): %s vs %s", w, op, ra, rb), Request: lastReq(o)})
					}
				}
				a.Op, b.Op = "in", "in"
			}
			a.Contains, b.Contains = true, false
			ra, _, oka := evalG(g, o, opts, a, datum)
			rb, _, okb := evalG(g, o, opts, b, datum)
			if oka && okb && ra != rb {
				o.finding(Finding{Property: "C04", Kind: "failing-input", What: "contains and in differ: " + ra + " vs " + rb, Request: lastReq(o)})
			}
			// the complement of each spelling, on the same literal and datum
			na := a
			na.Op = "notin"
			if rna, _, okn := evalG(g, o, opts, na, datum); oka && okn && ra != "P" && rna != "P" && notOf(norm(ra)) != norm(rna) {
				o.finding(Finding{Property: "C04", Kind: "failing-input", What: fmt.Sprintf("contains gives %s but not contains gives %s", ra, rna), Request: lastReq(o)})
			}
		}
	}
}

// ---------------------------------------------------------------- C05

var absentTable = map[string]string{"eq": "F", "ne": "T", "in": "F", "notin": "T", "empty": "T", "notempty": "F", "matches": "F", "notmatches": "T"}

func fragAbsent(g *Gen, n int, o *Out) {
	for i := 0; i < n; i++ {
		doc := g.randJSONDoc(3, g.r.Intn(2) == 0)
		root := map[string]interface{}{"top": doc, "m": map[string]interface{}{"a": 1.0}, "s": map[string]string{"k": "v"}, "n": g.randJSONDoc(2, false),
			"t":  Tagged{Meta: map[string]string{"v": "1"}, Labels: map[string]interface{}{"a": 1}, W: Wrap{V: map[string]interface{}{"in": 1}}, Plain: map[string]int{"p": 1}},
			"pt": &Tagged{Meta: map[string]string{}, Labels: map[string]interface{}{"l": map[string]interface{}{"deep": true}}}}
		var paths []PathInfo
		enumPaths(reflect.ValueOf(root), "bexpr", nil, 5, &paths)
		// candidates: map-valued paths (the parent of the absent key), length >= 1
		var maps []PathInfo
		for _, p := range paths {
			if v := unwrapIfaceOnly(p.Val); v.IsValid() && v.Kind() == reflect.Map {
				maps = append(maps, p)
			}
		}
		if len(maps) == 0 {
			continue
		}
		par := maps[g.r.Intn(len(maps))]
		key := []string{"zz", "nope", "absent", "Z"}[g.r.Intn(4)]
		full := append(append([]string{}, par.Parts...), key)
		for _, op := range matchOps {
			m := GMatch{Path: full, Op: op, Raw: []string{"1", "x", "", "a.*", "(", "[z-a]", "eu-(1"}[g.r.Intn(7)], Contains: g.r.Intn(2) == 0}
			r, text, ok := evalG(g, o, nil, m, root)
			if ok && r != absentTable[op] {
				o.finding(Finding{Property: "C05", Kind: "failing-input", What: fmt.Sprintf("absent map key: %s gives %s, documented %s", op, r, absentTable[op]), Request: lastReq(o), Detail: text})
			}
			// with an unknown value u: exactly as if the key resolved to u
			unks := []interface{}{"", "x", 1, 42.5, true, uint8(7), int64(-1), jsonNumber("1e3"), jsonNumber("16"), jsonNumber("2.50"), jsonNumber("1"),
				nil, []interface{}{1.0, "x"}, map[string]interface{}{"x": 1.0}, MyStr("x"), []interface{}{}}
			u := unks[g.r.Intn(len(unks))]
			if _, isNum := u.(jsonNumber); isNum {
				m.Raw = []string{"1000", "0x10", "2.5", "1", "16", "1e3", "2.50", "x"}[g.r.Intn(8)]
			}
			ru, _, ok2 := evalG(g, o, []OptSpec{{Kind: "unk", Unk: u}}, m, root)
			parentMap, _ := unwrapIfaceOnly(par.Val).Interface().(map[string]interface{})
			if ok2 && parentMap != nil {
				parentMap[key] = u
				rd, _, ok3 := evalG(g, o, nil, m, root)
				delete(parentMap, key)
				if ok3 && ru != rd && ru != "P" && rd != "P" {
					o.finding(Finding{Property: "C05", Kind: "failing-input", What: fmt.Sprintf("unknown value %v: %s gives %s, but %s when the key holds that value", u, op, ru, rd), Request: lastReq(o), Detail: text})
				}
			}
		}
		// a map that is only reachable through the value-transformation hook
		for _, op := range matchOps {
			hm := GMatch{Path: []string{"t", "W", "zz"}, Op: op, Raw: "1", Contains: g.r.Intn(2) == 0}
			r, text, ok := evalG(g, o, []OptSpec{{Kind: "hook", Hook: "unwrap"}}, hm, root)
			if ok && r != absentTable[op] {
				o.finding(Finding{Property: "C05", Kind: "failing-input", What: fmt.Sprintf("absent key of a hook-unwrapped map: %s gives %s, documented %s", op, r, absentTable[op]), Request: lastReq(o), Detail: text})
			}
		}
		// `all` / `any` over the absent key: every binding form (also the same placeholder twice, `_`,
		// names that collide with the root key) and bodies that would fail if they were ever evaluated
		for _, cop := range []string{"all", "any"} {
			bodies := []GExpr{GMatch{Path: []string{"x"}, Op: "eq", Raw: "1"}, GMatch{Path: []string{"zz", "q"}, Op: "matches", Raw: "("},
				GColl{Op: "any", Path: []string{"x"}, Mode: "default", Def: "y", Inner: GMatch{Path: []string{"y"}, Op: "eq", Raw: "1"}}}
			forms := []GColl{
				{Mode: "default", Def: "x"}, {Mode: "indexvalue", Idx: "k", Val: "x"}, {Mode: "indexvalue", Idx: "k", Val: "k"}, {Mode: "indexvalue", Idx: "x", Val: "x"},
				{Mode: "index", Idx: "k"}, {Mode: "value", Val: "x"}, {Mode: "default", Def: full[0]}, {Mode: "indexvalue", Idx: full[0], Val: "x"},
			}
			for fi, f := range forms {
				if fi > 0 && g.r.Intn(2) == 0 {
					continue
				}
				c := f
				c.Op, c.Path, c.Inner = cop, full, bodies[g.r.Intn(len(bodies))]
				r, text, ok := evalG(g, o, nil, c, root)
				want := map[string]string{"all": "T", "any": "F"}[cop]
				if ok && r != want {
					o.finding(Finding{Property: "C05", Kind: "failing-input", What: cop + " over an absent map key gives " + r, Request: lastReq(o), Detail: text})
				}
			}
		}
		// the same forms over EMPTY collections (empty and nil slices, arrays of length 0, empty and nil maps):
		// nothing is visited, so any = false and all = true whatever the binding form and the body
		{
			var nilS []int
			var nilM map[string]int
			empties := map[string]interface{}{"es": []interface{}{}, "ns": nilS, "ea": [0]string{}, "em": map[string]interface{}{}, "nm": nilM, "ts": []Inner{}}
			for _, ek := range []string{"es", "ns", "ea", "em", "nm", "ts"} {
				if g.r.Intn(2) == 0 {
					continue
				}
				forms := []GColl{{Mode: "default", Def: "x"}, {Mode: "indexvalue", Idx: "k", Val: "x"}, {Mode: "indexvalue", Idx: "k", Val: "k"}, {Mode: "index", Idx: "k"}, {Mode: "value", Val: "x"}, {Mode: "indexvalue", Idx: ek, Val: ek}}
				c := forms[g.r.Intn(len(forms))]
				c.Op, c.Path = []string{"all", "any"}[g.r.Intn(2)], []string{ek}
				c.Inner = []GExpr{GMatch{Path: []string{"x"}, Op: "eq", Raw: "1"}, GMatch{Path: []string{"zz", "q"}, Op: "matches", Raw: "("}}[g.r.Intn(2)]
				r, text, ok := evalG(g, o, nil, c, empties)
				want := map[string]string{"all": "T", "any": "F"}[c.Op]
				if ok && r != want {
					o.finding(Finding{Property: "C06", Kind: "failing-input", What: c.Op + " over an empty collection gives " + r, Request: lastReq(o), Detail: text})
					o.finding(Finding{Property: "C01", Kind: "failing-input", What: c.Op + " over an empty collection gives " + r, Request: lastReq(o), Detail: text})
					o.finding(Finding{Property: "C05", Kind: "failing-input", What: c.Op + " over an empty collection gives " + r, Request: lastReq(o), Detail: text})
				}
			}
		}
		// an absent key reached THROUGH A QUANTIFIER ALIAS (x.zz where every element is a map lacking zz): each
		// element gives the operator's absent-key value, so any and all give that value; with an unknown value
		// u, as if every element held u
		{
			els := []interface{}{map[string]interface{}{"a": 1.0}, map[string]interface{}{"b": "x"}}
			lm := map[string]interface{}{"svc": els, "ms": map[string]interface{}{"p": map[string]interface{}{"a": 1.0}, "q": map[string]interface{}{}}, "typed": []map[string]string{{"a": "1"}, {}}}
			cp := [][]string{{"svc"}, {"ms"}, {"typed"}}[g.r.Intn(3)]
			op := matchOps[g.r.Intn(len(matchOps))]
			mode := []GColl{{Mode: "default", Def: "x"}, {Mode: "indexvalue", Idx: "k", Val: "x"}, {Mode: "value", Val: "x"}}[g.r.Intn(3)]
			if cp[0] == "ms" && mode.Mode == "default" {
				mode = GColl{Mode: "indexvalue", Idx: "k", Val: "x"} // the one-name form binds the KEY of a map
			}
			c := mode
			c.Op, c.Path = []string{"all", "any"}[g.r.Intn(2)], cp
			c.Inner = GMatch{Path: []string{"x", "zz"}, Op: op, Raw: []string{"1", "x", "", "a.*"}[g.r.Intn(4)], Contains: g.r.Intn(2) == 0}
			r, text, ok := evalG(g, o, nil, c, lm)
			if ok && r != absentTable[op] {
				o.finding(Finding{Property: "C05", Kind: "failing-input", What: fmt.Sprintf("absent map key through a quantifier alias: %s of %s gives %s, documented %s", c.Op, op, r, absentTable[op]), Request: lastReq(o), Detail: text})
			}
			ru, _, oku := evalG(g, o, []OptSpec{{Kind: "unk", Unk: "x"}}, c, lm)
			direct := GMatch{Path: []string{"u"}, Op: op, Raw: c.Inner.(GMatch).Raw, Contains: c.Inner.(GMatch).Contains}
			rd, _, okd := evalG(g, o, nil, direct, map[string]interface{}{"u": "x"})
			if oku && okd && ru != rd && ru != "P" {
				o.finding(Finding{Property: "C05", Kind: "failing-input", What: fmt.Sprintf("unknown value through a quantifier alias: %s of %s gives %s, but %s on a key holding that value", c.Op, op, ru, rd), Request: lastReq(o), Detail: text})
			}
		}
		// error cases: absent top-level key, absent intermediate, index out of range, step into a scalar
		errPaths := [][]string{{"zz"}, {"zz", "a"}, {"m", "zz", "a"}, {"m", "a", "x"}}
		for _, p := range paths {
			if v := unwrapIfaceOnly(p.Val); v.IsValid() && v.Kind() == reflect.Slice {
				errPaths = append(errPaths, append(append([]string{}, p.Parts...), strconv.Itoa(v.Len())), append(append([]string{}, p.Parts...), "-1"))
				break
			}
		}
		for _, ep := range errPaths {
			op := matchOps[g.r.Intn(len(matchOps))]
			m := GMatch{Path: ep, Op: op, Raw: "1"}
			r, text, ok := evalG(g, o, nil, m, root)
			if ok && norm(r) != "E" && r != "P" {
				o.finding(Finding{Property: "C05", Kind: "failing-input", What: fmt.Sprintf("%v must be an error, %s gives %s", ep, op, r), Request: lastReq(o), Detail: text})
			}
		}
		// an unknown value substitutes for ABSENT keys and fields only: an index out of range, a step into a
		// scalar and an unparsable index stay errors whatever unknown value is configured
		{
			jd := map[string]interface{}{"name": "web", "tags": []interface{}{"primary", "x"}, "ports": []int{80}, "meta": map[string]interface{}{"env": "prod", "l": []interface{}{1.0}}}
			hard := [][]string{{"tags", "3"}, {"tags", "2"}, {"ports", "1"}, {"meta", "l", "7"}, {"name", "x"}, {"meta", "env", "k"}, {"tags", "x"}, {"tags", "-1"}, {"ports", "99999999999999999999"}, {"tags", "0", "q"}}
			hp := hard[g.r.Intn(len(hard))]
			op := matchOps[g.r.Intn(len(matchOps))]
			u := []interface{}{"none", "", 1, nil, []interface{}{"x"}, map[string]interface{}{"a": 1}}[g.r.Intn(6)]
			for _, sty := range []int{1, 2} {
				m := GMatch{Path: hp, Op: op, Raw: "none", SelStyle: sty}
				r, text, ok := evalG(g, o, []OptSpec{{Kind: "unk", Unk: u}}, m, jd)
				if ok && norm(r) != "E" && r != "P" {
					o.finding(Finding{Property: "C05", Kind: "failing-input", What: fmt.Sprintf("%v is not an absent key or field, yet with the unknown value %#v %s gives %s instead of an error", hp, u, op, r), Request: lastReq(o), Detail: text})
				}
			}
			c := GColl{Op: []string{"all", "any"}[g.r.Intn(2)], Path: hp, Mode: "default", Def: "x", Inner: GMatch{Path: []string{"x"}, Op: "eq", Raw: "none"}}
			if r, text, ok := evalG(g, o, []OptSpec{{Kind: "unk", Unk: u}}, c, jd); ok && norm(r) != "E" && r != "P" {
				o.finding(Finding{Property: "C05", Kind: "failing-input", What: fmt.Sprintf("%v is not an absent key or field, yet with the unknown value %#v %s over it gives %s instead of an error", hp, u, c.Op, r), Request: lastReq(o), Detail: text})
			}
		}
		// expressions whose selectors all resolve are unaffected by an unknown value
		if len(paths) > 0 {
			p := paths[g.r.Intn(len(paths))]
			m := GMatch{Path: p.Parts, Op: matchOps[g.r.Intn(len(matchOps))], Raw: g.literalsFor(p.Val)[0]}
			r1, _, ok1 := evalG(g, o, nil, m, root)
			r2, text, ok2 := evalG(g, o, []OptSpec{{Kind: "unk", Unk: "u"}}, m, root)
			if ok1 && ok2 && r1 != r2 {
				o.finding(Finding{Property: "C05", Kind: "failing-input", What: "unknown value changes a fully resolving expression: " + r1 + " vs " + r2, Request: lastReq(o), Detail: text})
			}
		}
	}
}

// ---------------------------------------------------------------- C06

// subst replaces the bound value name x by the path prefix (element path) in e, respecting
// shadowing by inner quantifiers.
func subst(e GExpr, x string, elem []string) GExpr {
	sp := func(p []string) []string {
		if len(p) > 0 && p[0] == x {
			return append(append([]string{}, elem...), p[1:]...)
		}
		return p
	}
	switch n := e.(type) {
	case GNot:
		return GNot{subst(n.E, x, elem)}
	case GAnd:
		return GAnd{subst(n.L, x, elem), subst(n.R, x, elem)}
	case GOr:
		return GOr{subst(n.L, x, elem), subst(n.R, x, elem)}
	case GMatch:
		n.Path = sp(n.Path)
		return n
	case GColl:
		n.Path = sp(n.Path)
		if n.Def == x || n.Idx == x || n.Val == x {
			return n // x is rebound inside
		}
		n.Inner = subst(n.Inner, x, elem)
		return n
	}
	return e
}

// usesName reports whether e mentions name as the root of some selector (free occurrence).
func usesName(e GExpr, name string) bool {
	switch n := e.(type) {
	case GNot:
		return usesName(n.E, name)
	case GAnd:
		return usesName(n.L, name) || usesName(n.R, name)
	case GOr:
		return usesName(n.L, name) || usesName(n.R, name)
	case GMatch:
		return len(n.Path) > 0 && n.Path[0] == name
	case GColl:
		if len(n.Path) > 0 && n.Path[0] == name {
			return true
		}
		if n.Def == name || n.Idx == name || n.Val == name {
			return false
		}
		return usesName(n.Inner, name)
	}
	return false
}

// renameRoot renames free occurrences of the selector root `from` to `to`.
func renameRoot(e GExpr, from, to string) GExpr {
	rp := func(p []string) []string {
		if len(p) > 0 && p[0] == from {
			return append([]string{to}, p[1:]...)
		}
		return p
	}
	switch n := e.(type) {
	case GNot:
		return GNot{renameRoot(n.E, from, to)}
	case GAnd:
		return GAnd{renameRoot(n.L, from, to), renameRoot(n.R, from, to)}
	case GOr:
		return GOr{renameRoot(n.L, from, to), renameRoot(n.R, from, to)}
	case GMatch:
		n.Path = rp(n.Path)
		return n
	case GColl:
		n.Path = rp(n.Path)
		if n.Def == from || n.Idx == from || n.Val == from {
			return n
		}
		n.Inner = renameRoot(n.Inner, from, to)
		return n
	}
	return e
}

// bindsName reports whether some quantifier inside e binds name (so that substituting a path
// rooted at name below it would be captured).
func bindsName(e GExpr, name string) bool {
	switch n := e.(type) {
	case GNot:
		return bindsName(n.E, name)
	case GAnd:
		return bindsName(n.L, name) || bindsName(n.R, name)
	case GOr:
		return bindsName(n.L, name) || bindsName(n.R, name)
	case GColl:
		return n.Def == name || n.Idx == name || n.Val == name || bindsName(n.Inner, name)
	}
	return false
}

func fragUnroll(g *Gen, n int, o *Out) {
	for i := 0; i < n; i++ {
		datum, root, paths := datumAndPaths(g, "bexpr")
		var lists []PathInfo
		for _, p := range paths {
			if v := unwrapIfaceOnly(p.Val); v.IsValid() && (v.Kind() == reflect.Slice || v.Kind() == reflect.Array) && canBexprSel(p.Parts) {
				lists = append(lists, p)
			}
		}
		if len(lists) == 0 {
			o.count("no-list")
			continue
		}
		S := lists[g.r.Intn(len(lists))]
		lv := unwrapIfaceOnly(S.Val)
		c, ok := g.genCollOver(root, "bexpr", paths, S, 1).(GColl)
		if !ok {
			continue
		}
		// capture hazards: the index/key name equals the first part of the collection's own
		// selector, or a name that the body also uses for a top-level field
		if g.r.Intn(3) == 0 && identRe.MatchString(S.Parts[0]) && !keywords[S.Parts[0]] && !strings.Contains(S.Parts[0], "/") {
			c.Mode = "indexvalue"
			c.Idx = S.Parts[0]
			if c.Val == "" || c.Val == c.Idx {
				c.Val = "v"
			}
			c.Def = ""
			// a body over the element only
			var sub []PathInfo
			if lv.Len() > 0 {
				sub = append(sub, PathInfo{Parts: []string{c.Val}, Val: lv.Index(0)})
				enumPaths(lv.Index(0), "bexpr", []string{c.Val}, 2, &sub)
			} else {
				sub = append(sub, PathInfo{Parts: []string{c.Val}})
			}
			c.Inner = g.genExpr(root, "bexpr", sub, 1, false)
			o.count("hazard:index-named-as-collection-root")
		}
		if g.r.Intn(4) == 0 && len(S.Parts) >= 1 && identRe.MatchString(S.Parts[0]) && !keywords[S.Parts[0]] && !strings.Contains(S.Parts[0], "/") && !bindsName(c.Inner, S.Parts[0]) {
			// the VALUE name shadows the collection's own root inside the braces
			old := ""
			switch c.Mode {
			case "default":
				old, c.Def = c.Def, S.Parts[0]
			case "value":
				old, c.Val = c.Val, S.Parts[0]
			case "indexvalue":
				if c.Idx != S.Parts[0] {
					old, c.Val = c.Val, S.Parts[0]
				}
			}
			if old != "" && old != S.Parts[0] {
				c.Inner = renameRoot(c.Inner, old, S.Parts[0])
				o.count("hazard:value-named-as-collection-root")
			}
		}
		// the unrolling speaks about the value name only
		valueName := ""
		switch c.Mode {
		case "default":
			valueName = c.Def
		case "value", "indexvalue":
			valueName = c.Val
		default:
			o.count("index-only")
			continue
		}
		if c.Mode == "indexvalue" && (usesName(c.Inner, c.Idx) || c.Idx == c.Val) {
			o.count("index-used")
			continue
		}
		if bindsName(c.Inner, S.Parts[0]) {
			// the substitution P[S.i/x] would be captured by an inner binder: not an unrolling
			o.count("capture-skip")
			continue
		}
		var opts []OptSpec
		switch g.r.Intn(8) {
		case 0:
			opts = []OptSpec{{Kind: "hook", Hook: "identity"}}
		case 1:
			opts = []OptSpec{{Kind: "hook", Hook: "unwrap"}}
		}
		elems := make([]string, lv.Len())
		for j := range elems {
			elems[j] = strconv.Itoa(j)
		}
		checkUnroll(g, o, c, valueName, elems, datum, opts)
	}
	// elements that a value-transformation hook replaces: the alias must denote what S.i denotes
	for i := 0; i < n/8+2; i++ {
		w := func(v interface{}) Wrap { return Wrap{V: v} }
		pw := func(v interface{}) *Wrap { return &Wrap{V: v} }
		datum := map[string]interface{}{
			"ws":   []interface{}{w("db"), pw("web"), w(1), pw([]interface{}{1, "db"}), "db", w(nil)},
			"pws":  []*Wrap{pw("db"), pw(""), pw(map[string]interface{}{"a": "db"})},
			"vws":  []Wrap{w("web"), w("db")},
			"mw":   map[string]Wrap{"a": w("db"), "b": w(2), "c": w([]interface{}{"db"})},
			"wl":   w([]interface{}{"x", "db"}),
			"rows": []interface{}{w([]interface{}{1, 2}), w([]interface{}{3})},
		}
		colls := []struct {
			path  []string
			elems []string
		}{
			{[]string{"ws"}, []string{"0", "1", "2", "3", "4", "5"}}, {[]string{"pws"}, []string{"0", "1", "2"}}, {[]string{"vws"}, []string{"0", "1"}},
			{[]string{"mw"}, []string{"a", "b", "c"}}, {[]string{"wl"}, []string{"0", "1"}}, {[]string{"rows"}, []string{"0", "1"}},
		}
		cl := colls[g.r.Intn(len(colls))]
		bodies := []GExpr{
			GMatch{Path: []string{"x"}, Op: "eq", Raw: "db", LitStyle: 2},
			GMatch{Path: []string{"x"}, Op: "ne", Raw: "web", LitStyle: 2},
			GMatch{Path: []string{"x"}, Op: "notempty"},
			GMatch{Path: []string{"x"}, Op: "empty"},
			GMatch{Path: []string{"x"}, Op: "matches", Raw: "^d", LitStyle: 2},
			GMatch{Path: []string{"x"}, Op: "in", Raw: "db", LitStyle: 2},
			GMatch{Path: []string{"x", "a"}, Op: "eq", Raw: "db", LitStyle: 2},
			GMatch{Path: []string{"x", "1"}, Op: "eq", Raw: "db", LitStyle: 2},
			GColl{Op: "any", Path: []string{"x"}, Mode: "default", Def: "c", Inner: GMatch{Path: []string{"c"}, Op: "eq", Raw: "1"}},
			GOr{GMatch{Path: []string{"x", "V"}, Op: "eq", Raw: "db", LitStyle: 2}, GMatch{Path: []string{"x"}, Op: "eq", Raw: "db", LitStyle: 2}},
		}
		mode := []string{"default", "indexvalue", "value"}[g.r.Intn(3)]
		if cl.path[0] == "mw" && mode == "default" {
			mode = "indexvalue" // the one-name form is the key for maps
		}
		c := GColl{Op: []string{"any", "all"}[g.r.Intn(2)], Path: cl.path, Mode: mode, Inner: bodies[g.r.Intn(len(bodies))]}
		switch mode {
		case "default":
			c.Def = "x"
		case "value":
			c.Val = "x"
		default:
			c.Idx, c.Val = "i", "x"
		}
		for _, hook := range []string{"unwrap", "identity", "off"} {
			var opts []OptSpec
			if hook != "off" {
				opts = []OptSpec{{Kind: "hook", Hook: hook}}
			}
			if cl.path[0] == "wl" && hook != "unwrap" {
				continue // a list only after unwrapping: without the hook it is a struct, not a collection
			}
			if g.r.Intn(4) == 0 {
				opts = append(opts, OptSpec{Kind: "unk", Unk: "db"})
			}
			checkUnroll(g, o, c, "x", cl.elems, datum, opts)
		}
	}
}

// checkUnroll compares a quantifier with its unrolled or/and chain over the given element keys
// (indices, or map keys in sorted order), both evaluated by the real code under the same options.
func checkUnroll(g *Gen, o *Out, c GColl, valueName string, elems []string, datum interface{}, opts []OptSpec) {
	rq, tq, okq := evalG(g, o, opts, c, datum)
	if !okq || rq == "P" {
		return
	}
	var un GExpr
	for j := len(elems) - 1; j >= 0; j-- {
		pj := subst(c.Inner, valueName, append(append([]string{}, c.Path...), elems[j]))
		if un == nil {
			un = pj
		} else if c.Op == "any" {
			un = GOr{pj, un}
		} else {
			un = GAnd{pj, un}
		}
	}
	o.count(fmt.Sprintf("len:%d", len(elems)))
	want := ""
	if un == nil {
		want = map[string]string{"any": "F", "all": "T"}[c.Op]
	} else {
		ru, _, oku := evalG(g, o, opts, un, datum)
		if !oku || ru == "P" {
			return
		}
		want = norm(ru)
	}
	if norm(rq) != want {
		o.finding(Finding{Property: "C06", Kind: "failing-input", What: fmt.Sprintf("%s over a %d-element collection gives %s, its unrolling gives %s (options %s)", c.Op, len(elems), rq, want, wireOpts(opts)), Request: lastReq(o), Detail: tq})
	}
}

// genCollOver builds a quantifier over the given collection path.
func (g *Gen) genCollOver(root reflect.Value, tag string, paths []PathInfo, S PathInfo, depth int) GExpr {
	only := []PathInfo{S}
	c, _ := g.genColl(root, tag, only, depth, false).(GColl)
	c.Path = S.Parts
	// body over the bound names mostly, plus global paths
	return c
}

// ---------------------------------------------------------------- C07

func setStyle(e GExpr, style int) GExpr {
	switch n := e.(type) {
	case GNot:
		return GNot{setStyle(n.E, style)}
	case GAnd:
		return GAnd{setStyle(n.L, style), setStyle(n.R, style)}
	case GOr:
		return GOr{setStyle(n.L, style), setStyle(n.R, style)}
	case GMatch:
		n.SelStyle = style
		return n
	case GColl:
		n.SelStyle = style
		n.Inner = setStyle(n.Inner, style)
		return n
	}
	return e
}

func allPathsBoth(e GExpr) bool {
	switch n := e.(type) {
	case GNot:
		return allPathsBoth(n.E)
	case GAnd:
		return allPathsBoth(n.L) && allPathsBoth(n.R)
	case GOr:
		return allPathsBoth(n.L) && allPathsBoth(n.R)
	case GMatch:
		return canBexprSel(n.Path) && !keywords[n.Path[0]] && canPointer(n.Path)
	case GColl:
		return canBexprSel(n.Path) && !keywords[n.Path[0]] && canPointer(n.Path) && allPathsBoth(n.Inner)
	}
	return false
}

// spellingHistory: ONE evaluator per spelling, reused over data on which the operator succeeds, then fails with an
// error that names the selector, then succeeds again: the spellings agree at every step (a selector printed for
// the message must not change what the evaluator resolves afterwards).
func spellingHistory(o *Out) {
	for _, key := range []string{"svc/web", "ti~lde", "a~1b", "x~0", "p.q", "~", "/", "plain"} {
		bracket := "r[" + quoteDouble(key) + "].tags"
		tick := "r[`" + key + "`].tags"
		pointer := "\"/r/" + ptrEscape(key) + "/tags\""
		good := map[string]interface{}{"r": map[string]interface{}{key: map[string]interface{}{"tags": []interface{}{"prod"}}}}
		bad := map[string]interface{}{"r": map[string]interface{}{key: map[string]interface{}{"tags": nil}}}
		bad2 := map[string]interface{}{"r": map[string]interface{}{key: map[string]interface{}{"tags": 5}}}
		history := []interface{}{good, bad, good, bad2, bad, good}
		for _, form := range []string{"%s is not empty", "prod in %s", "any %s as t { t == prod }", "not (%s is empty)", "all %s as i, t { i == 0 and t matches `^pr` }"} {
			var evs []*bexpr.Evaluator
			var texts []string
			for _, sel := range []string{bracket, tick, pointer} {
				text := fmt.Sprintf(form, sel)
				if ev, _ := create(text, nil); ev != nil {
					evs, texts = append(evs, ev), append(texts, text)
				}
			}
			if len(evs) != 3 {
				o.finding(Finding{Property: "C07", Kind: "failing-input", What: fmt.Sprintf("one spelling of the key %q is rejected at creation (%d of 3 accepted)", key, len(evs)), Request: "parse 0 " + hx(fmt.Sprintf(form, pointer))})
				continue
			}
			for step, d := range history {
				var outs []string
				for _, ev := range evs {
					outs = append(outs, norm(safeEvaluate(ev, d)))
				}
				o.meta.Cases += 3
				want := ""
				if step == 0 || step == 2 || step == 5 {
					want = "T"
				}
				if outs[0] != outs[1] || outs[0] != outs[2] || (want != "" && outs[0] != want) {
					req := "eval ( opts ) " + hx(texts[2]) + " " + serAny(d) + " ( re )"
					o.finding(Finding{Property: "C07", Kind: "failing-history", What: fmt.Sprintf("step %d of good,bad,good,bad2,bad,good on reused evaluators: bracket %s, backtick %s, pointer %s (want equal%s)", step, outs[0], outs[1], outs[2], map[bool]string{true: ", T", false: ""}[want != ""]), Request: req, Detail: strings.Join(texts, " | ")})
					break
				}
			}
		}
	}
}

func fragSpelling(g *Gen, n int, o *Out) {
	spellingHistory(o)
	// two different paths whose dotted renderings coincide, used in ONE expression
	for i := 0; i < n/10+1; i++ {
		r1, r2 := []string{"r1", "a", "1"}[g.r.Intn(3)], []string{"r2", "b", "2"}[g.r.Intn(3)]
		datum := map[string]interface{}{"meta": map[string]interface{}{"rack.id": r1, "rack": map[string]interface{}{"id": r2}}, "dc.name": r1, "dc": map[string]interface{}{"name": r2}}
		datum["labels"] = map[string]interface{}{"team/env": r1, "team": map[string]interface{}{"env": r2}}
		datum["a/b"] = r1
		datum["a"] = map[string]interface{}{"b": r2}
		pairs := [][2][]string{{{"meta", "rack.id"}, {"meta", "rack", "id"}}, {{"dc.name"}, {"dc", "name"}}, {{"labels", "team/env"}, {"labels", "team", "env"}}, {{"a/b"}, {"a", "b"}}}
		pr := pairs[g.r.Intn(len(pairs))]
		mk := func(style int) GExpr {
			a := GMatch{Path: pr[0], Op: "eq", Raw: r1, SelStyle: style, LitStyle: 2}
			b := GMatch{Path: pr[1], Op: "eq", Raw: r2, SelStyle: style, LitStyle: 2}
			if g.r.Intn(2) == 0 {
				return GAnd{a, b}
			}
			return GAnd{b, a}
		}
		ra, ta, oka := evalG(g, o, nil, mk(1), datum)
		rb, tb, okb := evalG(g, o, nil, mk(2), datum)
		if oka && okb && (ra != rb || ra != "T") {
			o.finding(Finding{Property: "C07", Kind: "failing-input", What: fmt.Sprintf("bracket/dotted spelling gives %s, pointer spelling %s (both must be T)", ra, rb), Request: lastReq(o), Detail: fmt.Sprintf("%q vs %q", ta, tb)})
		}
		o.count("collision-pair")
	}
	for i := 0; i < n; i++ {
		datum, root, paths := datumAndPaths(g, "bexpr")
		e := g.genExpr(root, "bexpr", paths, 2, false)
		if !allPathsBoth(e) {
			o.count("not-both")
			continue
		}
		r1, t1, ok1 := evalG(g, o, nil, setStyle(e, 1), datum)
		r2, t2, ok2 := evalG(g, o, nil, setStyle(e, 2), datum)
		r3, _, ok3 := evalG(g, o, nil, e, datum) // mixed
		if !ok1 || !ok2 || !ok3 {
			continue
		}
		if r1 != r2 || r1 != r3 {
			o.finding(Finding{Property: "C07", Kind: "failing-input", What: fmt.Sprintf("spellings differ: dotted/bracket %s, pointer %s, mixed %s", r1, r2, r3), Request: lastReq(o), Detail: fmt.Sprintf("%q vs %q", t1, t2)})
		}
	}
}

// ---------------------------------------------------------------- C08

// perturbHidden returns a deep copy of v in which the content of hidden fields (unexported, or
// tagged "-" under tag) is changed; ok=false if nothing hidden was found.
func (g *Gen) perturbHidden(v reflect.Value, tag string, changed *bool) reflect.Value {
	out := reflect.New(v.Type()).Elem()
	switch v.Kind() {
	case reflect.Ptr:
		if v.IsNil() {
			return out
		}
		p := reflect.New(v.Type().Elem())
		p.Elem().Set(g.perturbHidden(v.Elem(), tag, changed))
		out.Set(p)
	case reflect.Interface:
		if v.IsNil() {
			return out
		}
		out.Set(g.perturbHidden(v.Elem(), tag, changed))
	case reflect.Slice:
		if v.IsNil() {
			return out
		}
		s := reflect.MakeSlice(v.Type(), v.Len(), v.Len())
		for i := 0; i < v.Len(); i++ {
			s.Index(i).Set(g.perturbHidden(v.Index(i), tag, changed))
		}
		out.Set(s)
	case reflect.Array:
		for i := 0; i < v.Len(); i++ {
			out.Index(i).Set(g.perturbHidden(v.Index(i), tag, changed))
		}
	case reflect.Map:
		if v.IsNil() {
			return out
		}
		m := reflect.MakeMap(v.Type())
		for _, k := range sortedMapKeys(v) {
			m.SetMapIndex(k, g.perturbHidden(v.MapIndex(k), tag, changed))
		}
		out.Set(m)
	case reflect.Struct:
		t := v.Type()
		for i := 0; i < t.NumField(); i++ {
			f := t.Field(i)
			hidden := f.PkgPath != ""
			if tv := f.Tag.Get(tag); tv != "" {
				if j := strings.Index(tv, ","); j >= 0 {
					tv = tv[:j]
				}
				if tv == "-" {
					hidden = true
				}
			}
			dst := out.Field(i)
			if !dst.CanSet() {
				dst = reflect.NewAt(dst.Type(), unsafePointer(dst)).Elem()
			}
			src := v.Field(i)
			if !src.CanInterface() {
				src = reflect.NewAt(src.Type(), unsafePointerRO(v, i)).Elem()
			}
			if hidden {
				*changed = true
				dst.Set(g.randValue(f.Type, 2))
			} else {
				dst.Set(g.perturbHidden(src, tag, changed))
			}
		}
	default:
		out.Set(v)
	}
	return out
}

// hiddenThroughQuantifier: the tag name governs lookups inside quantifier bodies too.
func hiddenThroughQuantifier(g *Gen, o *Out) {
	for _, tag := range []string{"json", "bexpr"} {
		var opts []OptSpec
		if tag != "bexpr" {
			opts = []OptSpec{{Kind: "tag", Tag: tag}}
		}
		mk := func(secret string) interface{} {
			return map[string]interface{}{"L": []HiddenHolder{{Vis: 1, Secret: secret, AltSec: secret, Tagged: "t"}}, "M": map[string]HiddenHolder{"k": {Vis: 2, Secret: secret, AltSec: secret, Tagged: "t"}}}
		}
		d1, d2 := mk("s3cr3t"), mk("other")
		hiddenName := map[string]string{"json": "AltSec", "bexpr": "Secret"}[tag]
		tagName := map[string]string{"json": "jvis2", "bexpr": "vis2"}[tag]
		for _, coll := range []string{"L", "M"} {
			mode, def, val := "default", "u", ""
			if coll == "M" {
				mode, def, val = "value", "", "u"
			}
			for _, e := range []GExpr{
				GColl{Op: "any", Path: []string{coll}, Mode: mode, Def: def, Val: val, Inner: GMatch{Path: []string{"u", hiddenName}, Op: "eq", Raw: "s3cr3t", LitStyle: 2}},
				GColl{Op: "any", Path: []string{coll}, Mode: mode, Def: def, Val: val, Inner: GMatch{Path: []string{"u", tagName}, Op: "eq", Raw: "t", LitStyle: 2}},
				GColl{Op: "any", Path: []string{coll}, Mode: mode, Def: def, Val: val, Inner: GMatch{Path: []string{"u", "Tagged"}, Op: "eq", Raw: "t", LitStyle: 2}},
				GColl{Op: "all", Path: []string{coll}, Mode: mode, Def: def, Val: val, Inner: GColl{Op: "any", Path: []string{coll}, Mode: mode, Def: "w", Val: map[string]string{"L": "", "M": "w"}[coll], Inner: GMatch{Path: []string{"w", hiddenName}, Op: "ne", Raw: "x", LitStyle: 2}}},
			} {
				text, _, ok := g.renderTop(e)
				if !ok {
					continue
				}
				r1 := evalText(o, opts, text, d1)
				r2 := evalText(o, opts, text, d2)
				if r1 != r2 {
					o.finding(Finding{Property: "C08", Kind: "failing-input", What: fmt.Sprintf("hidden field observable through a quantifier under tag %s: %s vs %s", tag, r1, r2), Request: lastReq(o), Detail: text})
				}
			}
		}
	}
}

// hiddenInEmbedded: hidden / renamed fields of an embedded struct are not reachable by their bare
// Go name at the enclosing level either.
func hiddenInEmbedded(g *Gen, o *Out) {
	mk := func(tok string) Account {
		return Account{Creds: Creds{Token: tok, APIKey: "k-1", Owner: "alice"}, ID: 1, Ptag: "p"}
	}
	for _, tag := range []string{"bexpr", "json"} {
		var opts []OptSpec
		if tag != "bexpr" {
			opts = []OptSpec{{Kind: "tag", Tag: tag}}
		}
		for _, e := range []GExpr{
			GMatch{Path: []string{"Token"}, Op: "eq", Raw: "s3cret", LitStyle: 2},
			GMatch{Path: []string{"Creds", "Token"}, Op: "eq", Raw: "s3cret", LitStyle: 2},
			GMatch{Path: []string{"APIKey"}, Op: "matches", Raw: "^k-1$", LitStyle: 3},
			GAnd{GMatch{Path: []string{"Creds", "Owner"}, Op: "eq", Raw: "alice", LitStyle: 2}, GMatch{Path: []string{"Token"}, Op: "in", Raw: "s3", LitStyle: 2}},
			GMatch{Path: []string{"Owner"}, Op: "eq", Raw: "alice", LitStyle: 2},
		} {
			text, _, ok := g.renderTop(e)
			if !ok {
				continue
			}
			r1 := evalText(o, opts, text, mk("s3cret"))
			r2 := evalText(o, opts, text, mk("other"))
			if r1 != r2 {
				o.finding(Finding{Property: "C08", Kind: "failing-input", What: fmt.Sprintf("hidden field of an embedded struct is observable under tag %s: %s vs %s", tag, r1, r2), Request: lastReq(o), Detail: text})
			}
			k1 := keptPositions(text, []Account{mk("s3cret"), mk("x")})
			k2 := keptPositions(text, []Account{mk("other"), mk("x")})
			if tag == "bexpr" && k1 != k2 {
				o.finding(Finding{Property: "C08", Kind: "failing-input", What: "filter keeps different positions for data differing in a hidden embedded field: " + k1 + " vs " + k2, Detail: text, Request: lastReq(o)})
			}
		}
	}
}

// rename collisions: a visible field whose TAG name equals the GO name of a hidden sibling.  Any
// lookup that forgets the evaluator's tag name (e.g. a secondary "is the parent a map?" lookup with a
// default configuration) walks into the hidden sibling instead.
type collVis struct{ Team string }
type CollideS struct {
	Labels  collVis     `bexpr:"Meta" json:"x1"`
	Meta    interface{} `bexpr:"-" json:"x2"`
	JLabels collVis     `json:"JM" bexpr:"y1"`
	JM      interface{} `json:"-" bexpr:"y2"`
}
type CollideM struct {
	Labels  map[string]string `bexpr:"Meta" json:"x1"`
	Meta    interface{}       `bexpr:"-" json:"x2"`
	JLabels map[string]string `json:"JM" bexpr:"y1"`
	JM      interface{}       `json:"-" bexpr:"y2"`
}

func hiddenRenameCollision(g *Gen, o *Out) {
	hiddenVals := []interface{}{map[string]interface{}{"owner": "root", "Team": "t"}, "x", nil, map[string]int{}, []int{1}, &collVis{Team: "z"}}
	for _, tag := range []string{"bexpr", "json"} {
		var opts []OptSpec
		name := "Meta"
		if tag != "bexpr" {
			opts = []OptSpec{{Kind: "tag", Tag: tag}}
			name = "JM"
		}
		mk := func(kind int, hv interface{}) interface{} {
			if kind == 0 {
				d := CollideS{Labels: collVis{"a"}, JLabels: collVis{"a"}}
				if tag == "bexpr" {
					d.Meta = hv
				} else {
					d.JM = hv
				}
				return d
			}
			d := CollideM{Labels: map[string]string{"Team": "a"}, JLabels: map[string]string{"Team": "a"}}
			if tag == "bexpr" {
				d.Meta = hv
			} else {
				d.JM = hv
			}
			return d
		}
		for kind := 0; kind < 2; kind++ {
			for _, leaf := range []string{"owner", "Team", "zz"} {
				for _, op := range matchOps {
					m := GMatch{Path: []string{name, leaf}, Op: op, Raw: []string{"root", "a", ""}[g.r.Intn(3)], LitStyle: 2, Contains: g.r.Intn(2) == 0}
					text, _, ok := g.renderTop(m)
					if !ok {
						continue
					}
					first := ""
					for j, hv := range hiddenVals {
						r := evalText(o, opts, text, mk(kind, hv))
						o.count("rename-collision:" + norm(r))
						if j == 0 {
							first = r
						} else if r != first {
							o.finding(Finding{Property: "C08", Kind: "failing-input", What: fmt.Sprintf("data differing only in a hidden field (whose Go name equals a visible field's tag name) give %s vs %s", first, r), Request: lastReq(o), Detail: text})
							break
						}
					}
				}
			}
			// the same through a filter
			inner, _, ok := g.renderTop(GMatch{Path: []string{name, "owner"}, Op: "ne", Raw: "root", LitStyle: 2})
			if ok {
				firstF := ""
				for j, hv := range hiddenVals {
					_, ans := filterCase(inner, []interface{}{mk(kind, hiddenVals[0]), mk(kind, hv)})
					if strings.HasPrefix(ans, "E") {
						ans = "E"
					}
					if j == 0 {
						firstF = ans
					} else if shapeOnly(ans) != shapeOnly(firstF) {
						o.finding(Finding{Property: "C08", Kind: "failing-input", What: "Filter selection depends on a hidden field behind a rename collision", Detail: inner, Request: "filter " + hx(inner) + " " + serAny([]interface{}{mk(kind, hiddenVals[0]), mk(kind, hv)}) + " ( re )"})
						break
					}
				}
			}
		}
	}
}

// shapeOnly reduces a filter answer to error / number of kept elements.
func shapeOnly(ans string) string {
	if ans == "E" {
		return ans
	}
	return fmt.Sprint(strings.Count(ans, "main.Collide"))
}

// hiddenZeroElements: filter selections over elements whose VISIBLE fields are all zero, with and
// without hidden content (a "skip unset entries" shortcut must not look at hidden fields).
func hiddenZeroElements(g *Gen, o *Out) {
	exprs := []string{`Vis == 0`, `vis2 == ""`, `Vis != 5`, `vis2 is empty`, `Vis == 0 and List is empty`, `not (Vis == 1)`, `Vis == 1`, `AltSec == ""`}
	hiddenVariants := []HiddenHolder{{}, {Secret: "s3cr3t"}, {priv: map[string]int{"a": 1}}}
	for _, ex := range exprs {
		first := ""
		for j, hv := range hiddenVariants {
			kept := ""
			for _, cont := range []interface{}{[]HiddenHolder{{Vis: 1}, hv, {Vis: 2}}, map[string]HiddenHolder{"a": {Vis: 1}, "x": hv}, [2]HiddenHolder{hv, {Vis: 3}}} {
				_, ans := filterCase(ex, cont)
				if strings.HasPrefix(ans, "E") {
					kept += "E;"
				} else {
					kept += fmt.Sprint(strings.Count(ans, "( T main.HiddenHolder")) + ";"
				}
			}
			o.meta.Cases++
			o.count("zero-elements:" + kept)
			if ex == `Vis != 5` && kept != "3;2;2;" {
				o.finding(Finding{Property: "C08", Kind: "failing-input", What: "a filter that every element passes keeps " + kept + " elements of (slice;map;array) of sizes 3;2;2", Request: "filter " + hx(ex) + " " + serAny([]HiddenHolder{{Vis: 1}, hv, {Vis: 2}}) + " ( re )", Detail: ex})
			}
			if j == 0 {
				first = kept
			} else if kept != first {
				o.finding(Finding{Property: "C08", Kind: "failing-input", What: fmt.Sprintf("filter %q keeps %s elements (slice;map;array) when the all-zero element has no hidden content and %s when it has", ex, first, kept),
					Request: "filter " + hx(ex) + " " + serAny([]HiddenHolder{{Vis: 1}, hv, {Vis: 2}}) + " ( re )", Detail: ex})
				break
			}
		}
	}
}

func fragHidden(g *Gen, n int, o *Out) {
	hiddenZeroElements(g, o)
	optionSliceNotRetained(o)
	hiddenThroughQuantifier(g, o)
	hiddenInEmbedded(g, o)
	hiddenRenameCollision(g, o)
	tags := []string{"bexpr", "json", "étiq"} // a tag key may hold any byte but blank, quote, colon and controls
	for i := 0; i < n; i++ {
		tag := tags[g.r.Intn(3)]
		var opts []OptSpec
		if tag != "bexpr" {
			opts = append(opts, OptSpec{Kind: "tag", Tag: tag})
		}
		types := []reflect.Type{reflect.TypeOf(Account{}), reflect.TypeOf([]Account{}), reflect.TypeOf(HiddenHolder{}), reflect.TypeOf(Outer{}), reflect.TypeOf([]HiddenHolder{}), reflect.TypeOf(map[string]*HiddenHolder{}), reflect.TypeOf(Inner{}), reflect.TypeOf([]*Inner{})}
		t := types[g.r.Intn(len(types))]
		v1 := g.randValue(t, 4)
		if g.r.Intn(4) == 0 {
			// all visible fields zero: only hidden content distinguishes the two data
			v1 = reflect.New(t).Elem()
			if t.Kind() == reflect.Slice {
				v1 = reflect.MakeSlice(t, 2, 2)
			}
			if t.Kind() == reflect.Map {
				v1 = reflect.MakeMap(t)
				v1.SetMapIndex(reflect.ValueOf("k"), reflect.New(t.Elem().Elem()))
			}
			ch0 := false
			v1 = g.perturbHidden(v1, tag, &ch0)
		}
		changed := false
		v2 := g.perturbHidden(v1, tag, &changed)
		if !changed {
			o.count("nothing-hidden")
			continue
		}
		d1, d2 := v1.Interface(), v2.Interface()
		var paths []PathInfo
		enumPaths(v1, tag, nil, 4, &paths)
		// add hidden names explicitly
		hiddenNames := []string{"Token", "APIKey", "key", "jkey", "Owner", "Creds", "Hidden", "secret", "Secret", "AltSec", "priv", "hid", "X", "hid", "Both", "J", "jay", "why", "Y", "Tagged", "vis2", "jvis2", "Opt", "UniSec", "uvis2", "ukey"}
		var withHidden []PathInfo
		withHidden = append(withHidden, paths...)
		for _, p := range paths {
			if sv := unwrapIP(p.Val); sv.IsValid() && sv.Kind() == reflect.Struct {
				withHidden = append(withHidden, PathInfo{Parts: append(append([]string{}, p.Parts...), hiddenNames[g.r.Intn(len(hiddenNames))])})
			}
		}
		withHidden = append(withHidden, PathInfo{Parts: []string{hiddenNames[g.r.Intn(len(hiddenNames))]}})
		e := g.genExpr(v1, tag, withHidden, 2, false)
		if g.r.Intn(3) == 0 {
			// an operator applied to an enclosing struct as a whole
			var structs []PathInfo
			for _, p := range paths {
				if sv := unwrapIP(p.Val); sv.IsValid() && sv.Kind() == reflect.Struct {
					structs = append(structs, p)
				}
			}
			if len(structs) > 0 {
				p := structs[g.r.Intn(len(structs))]
				e = GMatch{Path: p.Parts, Op: matchOps[g.r.Intn(len(matchOps))], Raw: []string{"", "1", "x", ".*"}[g.r.Intn(4)], Contains: g.r.Intn(2) == 0}
			} else if v1.Kind() == reflect.Slice || v1.Kind() == reflect.Map {
				e = GColl{Op: "any", Path: []string{"Ins"}, Mode: "default", Def: "x", Inner: GMatch{Path: []string{"x"}, Op: "empty"}}
			}
		}
		text, _, ok := g.renderTop(e)
		if !ok {
			continue
		}
		r1 := evalText(o, opts, text, d1)
		r2 := evalText(o, opts, text, d2)
		o.count("pair:" + norm(r1))
		if e1, e2 := evalErrText(opts, text, d1), evalErrText(opts, text, d2); r1 == r2 && e1 != e2 {
			// the TEXT of the error is observable too: it must not depend on hidden content
			o.finding(Finding{Property: "C08", Kind: "failing-input", What: fmt.Sprintf("data differing only in hidden fields give errors with different texts: %.160q vs %.160q", e1, e2), Request: lastReq(o), Detail: text})
		}
		if r1 != r2 {
			o.finding(Finding{Property: "C08", Kind: "failing-input", What: "data differing only in hidden fields give " + r1 + " vs " + r2, Request: lastReq(o), Detail: text})
		}
		// literals spelled like the PRINTED form of a struct (fmt's %v / %+v, JSON): a comparison that goes through
		// formatting would see hidden fields
		if g.r.Intn(4) == 0 {
			cands := []PathInfo{{Parts: nil, Val: v1}}
			cands = append(cands, paths...)
			for tries, doneP := 0, 0; tries < 30 && doneP < 3; tries++ {
				p := cands[g.r.Intn(len(cands))]
				sv := unwrapIP(p.Val)
				if !sv.IsValid() || sv.Kind() != reflect.Struct || !sv.CanInterface() {
					continue
				}
				doneP++
				js, _ := json.Marshal(sv.Interface())
				for _, lit := range []string{fmt.Sprint(sv.Interface()), fmt.Sprintf("%+v", sv.Interface()), string(js), fmt.Sprintf("%v", []interface{}{sv.Interface()})} {
					if !canBacktick(lit) {
						continue
					}
					var es []GExpr
					if len(p.Parts) > 0 {
						es = append(es, GMatch{Path: p.Parts, Op: "eq", Raw: lit, LitStyle: 3}, GMatch{Path: p.Parts[:len(p.Parts)-1], Op: "in", Raw: lit, LitStyle: 3, Contains: g.r.Intn(2) == 0})
					}
					wrapd1, wrapd2 := map[string]interface{}{"L": []interface{}{d1}, "V": d1}, map[string]interface{}{"L": []interface{}{d2}, "V": d2}
					for _, e := range es {
						ft, _, okf := g.renderTop(e)
						if !okf {
							continue
						}
						f1, f2 := evalText(o, opts, ft, d1), evalText(o, opts, ft, d2)
						o.count("printed-form:" + norm(f1))
						if f1 != f2 {
							o.finding(Finding{Property: "C08", Kind: "failing-input", What: "data differing only in hidden fields give " + f1 + " vs " + f2 + " for a literal spelled like the printed form of the struct", Request: lastReq(o), Detail: ft})
						}
					}
					if len(p.Parts) == 0 {
						for _, e := range []GExpr{GMatch{Path: []string{"L"}, Op: "in", Raw: lit, LitStyle: 3, Contains: g.r.Intn(2) == 0}, GMatch{Path: []string{"V"}, Op: "eq", Raw: lit, LitStyle: 3}} {
							ft, _, okf := g.renderTop(e)
							if !okf {
								continue
							}
							f1, f2 := evalText(o, opts, ft, wrapd1), evalText(o, opts, ft, wrapd2)
							o.count("printed-form:" + norm(f1))
							if f1 != f2 {
								o.finding(Finding{Property: "C08", Kind: "failing-input", What: "data differing only in hidden fields give " + f1 + " vs " + f2 + " for a literal spelled like the printed form of the struct", Request: lastReq(o), Detail: ft})
							}
						}
					}
				}
			}
		}
		// systematically: every field that is hidden under this tag name, below every struct of the
		// datum, named by its Go name: the selector must fail (C08: "never resolves to its content") and
		// the two data must agree
		if g.r.Intn(3) == 0 {
			structPaths := []PathInfo{{Parts: nil, Val: v1}}
			structPaths = append(structPaths, paths...)
			done := 0
			for _, p := range structPaths {
				sv := unwrapIP(p.Val)
				if !sv.IsValid() || sv.Kind() != reflect.Struct || done >= 12 {
					continue
				}
				for fi := 0; fi < sv.NumField(); fi++ {
					f := sv.Type().Field(fi)
					tv := f.Tag.Get(tag)
					if j := strings.Index(tv, ","); j >= 0 {
						tv = tv[:j]
					}
					if f.Anonymous && unwrapIP(sv.Field(fi)).IsValid() && unwrapIP(sv.Field(fi)).Kind() == reflect.Struct {
						// Go promotes the fields of an embedded struct; selectors do not: a field of the embedded
						// struct named directly on the OUTER struct never resolves (whether the embedded struct is
						// hidden or not), and never leaks the embedded content
						es := unwrapIP(sv.Field(fi))
						for ei := 0; ei < es.NumField() && ei < 4; ei++ {
							ef := es.Type().Field(ei)
							direct := false
							for oi := 0; oi < sv.NumField(); oi++ {
								of := sv.Type().Field(oi)
								if !of.Anonymous && (of.Name == ef.Name || strings.Split(of.Tag.Get(tag), ",")[0] == ef.Name) {
									direct = true
								}
							}
							if direct {
								continue
							}
							elit := "x"
							if es.Field(ei).Kind() == reflect.String {
								elit = es.Field(ei).String()
							}
							m := GMatch{Path: append(append([]string{}, p.Parts...), ef.Name), Op: []string{"eq", "ne", "empty"}[g.r.Intn(3)], Raw: elit, LitStyle: 2}
							ht, _, okh := g.renderTop(m)
							if !okh {
								continue
							}
							h1 := evalText(o, opts, ht, d1)
							h2 := evalText(o, opts, ht, d2)
							o.count("promoted-name:" + norm(h1))
							if h1 != h2 || (norm(h1) != "E" && h1 != "P") {
								o.finding(Finding{Property: "C08", Kind: "failing-input", What: fmt.Sprintf("the field %s of the embedded struct %s, named on the outer struct, gives %s / %s (must not resolve; tag name %s)", ef.Name, f.Name, h1, h2, tag), Request: lastReq(o), Detail: ht})
							}
						}
					}
					if f.PkgPath == "" && tv != "-" {
						continue
					}
					if f.Anonymous {
						continue
					}
					lit := "x"
					if fv := sv.Field(fi); fv.Kind() == reflect.String {
						lit = fv.String()
					}
					for _, op := range []string{"eq", "ne", "empty", "matches", "below-ne", "below-empty", "below-all"} {
						m := GMatch{Path: append(append([]string{}, p.Parts...), f.Name), Op: op, Raw: lit, LitStyle: 2}
						if op == "matches" {
							m.Raw, m.LitStyle = ".*", 3
						}
						if strings.HasPrefix(op, "below-") {
							// a key BELOW the hidden field (absent or not): the walk must stop at the hidden field, whatever it holds
							m.Path = append(m.Path, []string{"zz", "a", "tier", "0"}[g.r.Intn(4)])
							m.Op = map[string]string{"below-ne": "ne", "below-empty": "empty", "below-all": "notin"}[op]
						}
						ht, _, okh := g.renderTop(m)
						if !okh {
							continue
						}
						h1 := evalText(o, opts, ht, d1)
						h2 := evalText(o, opts, ht, d2)
						done++
						o.count("hidden-name:" + norm(h1))
						if h1 != h2 {
							o.finding(Finding{Property: "C08", Kind: "failing-input", What: fmt.Sprintf("data differing only in hidden fields give %s vs %s for a selector naming the hidden field %s (tag name %s)", h1, h2, f.Name, tag), Request: lastReq(o), Detail: ht})
						} else if norm(h1) != "E" && h1 != "P" {
							o.finding(Finding{Property: "C08", Kind: "failing-input", What: fmt.Sprintf("a selector naming the field %s, hidden under the tag name %s, resolves (%s)", f.Name, tag, h1), Request: lastReq(o), Detail: ht})
						}
					}
				}
			}
		}
		// filters keep the same positions / keys
		if (v1.Kind() == reflect.Slice || v1.Kind() == reflect.Map) && tag == "bexpr" {
			k1 := keptPositions(text, d1)
			k2 := keptPositions(text, d2)
			if k1 != k2 {
				o.finding(Finding{Property: "C08", Kind: "failing-input", What: "filter keeps different positions: " + k1 + " vs " + k2, Detail: text, Request: "filter " + hx(text) + " " + serAny(d2) + " ( re )"})
			}
		}
	}
}

// keptPositions: which positions / keys of a container the filter keeps (by per-element Evaluate
// on the real code), or the error class.
func keptPositions(text string, data interface{}) string {
	ev, err := bexpr.CreateEvaluator(text)
	if err != nil {
		return "CE"
	}
	v := reflect.ValueOf(data)
	var out []string
	switch v.Kind() {
	case reflect.Slice:
		for i := 0; i < v.Len(); i++ {
			r := safeEvaluate(ev, v.Index(i).Interface())
			if r != "T" && r != "F" {
				return "E"
			}
			if r == "T" {
				out = append(out, strconv.Itoa(i))
			}
		}
	case reflect.Map:
		for _, k := range sortedMapKeys(v) {
			r := safeEvaluate(ev, v.MapIndex(k).Interface())
			if r != "T" && r != "F" {
				return "E"
			}
			if r == "T" {
				out = append(out, fmt.Sprint(k.Interface()))
			}
		}
		sortStrings(out)
	}
	return strings.Join(out, ",")
}

// ---------------------------------------------------------------- C09

type shape struct {
	name string
	val  interface{}
}

func matrixShapes() []shape {
	one, two := 1, 2
	pone := &one
	s := "s"
	var nilIface interface{}
	var nilMap map[string]int
	var nilSlice []int
	return []shape{
		{"nil", nil}, {"bool", true}, {"int", 1}, {"int8", int8(1)}, {"uint", uint(1)}, {"uint8", uint8(1)}, {"uintptr", uintptr(1)},
		{"float32", float32(1)}, {"float64", 1.0}, {"complex64", complex64(1)}, {"complex128", complex128(1)}, {"string", "1"}, {"empty-string", ""},
		{"MyStr", MyStr("1")}, {"MyInt", MyInt(1)}, {"json.Number", jsonNumber("1")}, {"json.Number-bad", jsonNumber("x")},
		{"*int", &one}, {"nil*int", (*int)(nil)}, {"**int", &pone}, {"*string", &s}, {"nil*string", (*string)(nil)},
		{"[]int", []int{1, 2}}, {"[]int-empty", []int{}}, {"[]int-nil", nilSlice}, {"[2]int", [2]int{1, 2}}, {"[0]int", [0]int{}}, {"*[2]int", &[2]int{1, 2}},
		{"[]*int", []*int{&one, &two}}, {"[]*int-nil-elem", []*int{&one, nil}}, {"[]**int", []**int{&pone}}, {"[]*string-nil-elem", []*string{&s, nil}},
		{"[]interface{}", []interface{}{1, "1", 1.0, true}}, {"[]interface{}-nil-elem", []interface{}{1, nil, "x"}}, {"[]interface{}-ptr", []interface{}{&one, &s}},
		{"[]interface{}-nilptr", []interface{}{(*int)(nil)}}, {"[]interface{}-struct", []interface{}{Inner{}}}, {"[]interface{}-slice", []interface{}{[]int{1}}},
		{"[]Octet", []Octet{49}}, {"[]MyUint16", []MyUint16{1}}, {"MyOctets", MyOctets{49}}, {"[][]byte", [][]byte{[]byte("1")}},
		{"[]string", []string{"1", "a"}}, {"[]byte", []byte("1")}, {"MyBytes", MyBytes("1")}, {"[]MyStr", []MyStr{"1"}}, {"[]bool", []bool{true}},
		{"[]float32", []float32{1}}, {"[]struct", []Inner{{}}}, {"[][]int", [][]int{{1}}}, {"[]map", []map[string]int{{"1": 1}}}, {"[]chan", []chan int{nil}},
		{"[]json.Number", []jsonNumber{"1"}}, {"[]uintptr", []uintptr{1}}, {"[]complex", []complex128{1}},
		{"map[string]int", map[string]int{"1": 1}}, {"map-empty", map[string]int{}}, {"map-nil", nilMap}, {"map[int]string", map[int]string{1: "a"}},
		{"map[MyStr]int", map[MyStr]int{"1": 1}}, {"map[interface{}]int", map[interface{}]int{"1": 1, 1: 2}}, {"map[bool]int", map[bool]int{true: 1}},
		{"map[float64]int", map[float64]int{1: 1}}, {"map[uint8]int", map[uint8]int{1: 1}}, {"*map", &map[string]int{"1": 1}},
		{"map[string]interface{}", map[string]interface{}{"1": nil}},
		{"struct", Inner{}}, {"*struct", &Inner{}}, {"nil*struct", (*Inner)(nil)}, {"Wrap", Wrap{V: 1}},
		{"chan", make(chan int)}, {"nil-chan", (chan int)(nil)}, {"func", func() {}}, {"nil-func", (func())(nil)}, {"unsafe", unsafePtrOf(&one)},
		{"nil-iface-field", nilIface},
		// values whose String method writes into its receiver (a cache, as resource quantities do): formatting them
		// — in an error message, a debug string — modifies the caller's datum
		{"caching-stringer", &CachingHolder{Name: "p", Limit: &CachingQuantity{I: 1}, Reqs: []*CachingQuantity{{I: 2}, {I: 3}}}},
		{"caching-stringer-value", CachingHolder{Name: "p", Limit: &CachingQuantity{I: 5}}},
		{"[]caching-stringer", []*CachingQuantity{{I: 7}}},
		// every scalar kind side by side in one interface-typed list, in both orders (a literal converted once
		// for the first element's kind and reused for the next would show here), and structs of different
		// types side by side (a field present in one element and not in the next)
		{"[]interface{}-all-kinds", []interface{}{1.0, float32(1), 1, int8(1), uint16(1), uint64(1), "1", true, MyInt(1), jsonNumber("1"), MyStr("1"), MyFloat32(1), int64(1), uint8(1)}},
		{"[]interface{}-all-kinds-reversed", []interface{}{uint8(1), int64(1), MyFloat32(1), MyStr("1"), jsonNumber("1"), MyInt(1), true, "1", uint64(1), uint16(1), int8(1), 1, float32(1), 1.0}},
		{"[]interface{}-floats", []interface{}{0.25, float32(1.5), 1.5, float32(0.25)}}, {"[2]interface{}-floats", [2]interface{}{float32(1.5), 1.5}},
		{"[]interface{}-mixed-structs", []interface{}{struct{ Name string }{"1"}, struct{ N int }{1}, Wrap{V: 1}, map[string]interface{}{"Name": "1"}, &struct{ Name string }{"a"}}},
		{"[]interface{}-mixed-structs-2", []interface{}{struct{ N int }{1}, struct{ Name string }{"1"}}},
		// maps keyed by pointers, arrays, structs, complex numbers, channels, non-empty interface types,
		// interface keys of those kinds and a nil key: every map key type is modelled (coerceKey / getMap in
		// lean/Bexpr/Go/Pointer.lean; the key sweep below steps INTO them with every class of path part)
		{"map[*int]int", map[*int]int{&one: 1}}, {"map[[2]int]string", map[[2]int]string{{1, 2}: "1"}}, {"map[struct]int", map[struct{ A int }]int{{1}: 1}},
		{"map[complex128]int", map[complex128]int{1: 1}}, {"map[chan]int", map[chan int]int{make(chan int): 1}}, {"map[float32]string", map[float32]string{1: "1"}},
		{"map[interface{}]-odd-keys", map[interface{}]interface{}{nil: 1, &one: 2, [1]int{1}: 3, struct{ A int }{1}: 4, 1.5: 5, true: 6, MyStr("1"): 7}},
		{"map[MyInt]int", map[MyInt]int{1: 1}}, {"map[MyBool]int", map[MyBool]int{true: 1}}, {"map[int8]int", map[int8]int{1: 1}}, {"map[uint64]int", map[uint64]int{1: 1}},
		{"map[string]nil-map", map[string]map[string]interface{}{"1": nil}}, {"map[string][]*Inner", map[string][]*Inner{"1": {nil, {}}}},
		{"map[error]int", map[error]int{fmt.Errorf("1"): 1, nil: 2}}, {"map[Stringer]int", map[fmt.Stringer]int{Sev(1): 1}}, {"map[[1]int]string", map[[1]int]string{{1}: "1"}},
		{"map[uintptr]int", map[uintptr]int{1: 1}}, {"map[[1]interface{}]int", map[[1]interface{}]int{{"1"}: 1, {nil}: 2}}, {"map[*[]byte]int", map[*[]byte]int{nil: 1}},
		{"**struct-nil-inner", func() **Inner { var p *Inner; return &p }()},
		{"[1]map", [1]map[string]int{{"1": 1}}}, {"[1][]int", [1][]int{{1}}},
		{"[]func", []func(){nil}}, {"[]unsafe", []unsafe.Pointer{nil}}, {"[][2]byte", [][2]byte{{49, 50}}}, {"map[string][2]byte", map[string][2]byte{"1": {49, 50}}},
		// values outside the modelled universe (the model answers U; the real code must still return
		// normally): pointers to interfaces; VALUES of non-empty interface types (elements, fields, map values)
		{"*interface{}-nil", &nilIface}, {"*interface{}-int", func() *interface{} { var x interface{} = 1; return &x }()},
		{"Stringer", fmt.Stringer(Sev(1))}, {"[]Stringer", []fmt.Stringer{nil, Sev(1)}}, {"map[string]Stringer", map[string]fmt.Stringer{"1": Sev(1), "2": nil}}, {"error", fmt.Errorf("1")},
		{"struct-with-Stringer", struct{ S fmt.Stringer }{Sev(1)}}, {"struct-with-nil-Stringer", struct{ S fmt.Stringer }{}},
	}
}

type keyShape struct {
	name   string
	val    interface{}
	panics bool // the key type makes mapstructure panic inside pointerstructure.Get (F12, fixed by 240ca2a: getValue recovers; a panic of Evaluate is a C09 violation again)
}

type keyS struct{ A int }
type keyE struct{}
type keyAny interface{}

// keyShapes: maps of every kind of key type a Go map can have.
func keyShapes() []keyShape {
	one := 1
	var nilp *int
	e := fmt.Errorf("x")
	return []keyShape{
		{"map[uintptr]int", map[uintptr]int{1: 1}, false}, {"map[[0]int]int", map[[0]int]int{{}: 1}, false}, {"map[[0]keyS]int", map[[0]keyS]int{{}: 1}, false},
		{"map[[1]int]int", map[[1]int]int{{1}: 1, {12}: 2}, false}, {"map[[2]int]int", map[[2]int]int{{1, 2}: 1, {1, 0}: 2}, false},
		{"map[[1]MyInt]int", map[[1]MyInt]int{{1}: 1}, false}, {"map[[1]MyStr]int", map[[1]MyStr]int{{"1"}: 1, {""}: 2}, false}, {"map[[1]string]int", map[[1]string]int{{"1"}: 1, {"x"}: 2}, false},
		{"map[[1]bool]int", map[[1]bool]int{{true}: 1, {false}: 2}, false}, {"map[[2]MyBool]int", map[[2]MyBool]int{{true, false}: 1, {false, true}: 2}, false},
		{"map[[1]float64]int", map[[1]float64]int{{1}: 1, {1.5}: 2, {math.NaN()}: 3, {math.Copysign(0, -1)}: 4}, false},
		{"map[[1]float32]int", map[[1]float32]int{{1}: 1, {1.5}: 2, {float32(math.Inf(1))}: 3}, false}, {"map[[1]MyFloat32]int", map[[1]MyFloat32]int{{1}: 1}, false},
		{"map[[1]uint8]int", map[[1]uint8]int{{1}: 1, {16}: 2}, false}, {"map[[1]Octet]int", map[[1]Octet]int{{1}: 1}, false}, {"map[[1]int8]int", map[[1]int8]int{{1}: 1, {-1}: 2}, false},
		{"map[[1]uintptr]int", map[[1]uintptr]int{{1}: 1}, false}, {"map[[1][1]int]int", map[[1][1]int]int{{{1}}: 1}, false},
		{"map[[2][2]int]int", map[[2][2]int]int{{{1, 0}, {0, 0}}: 1, {{1, 1}, {0, 0}}: 2}, false}, {"map[[1][0]int]int", map[[1][0]int]int{{{}}: 1}, false}, {"map[[0][1]int]int", map[[0][1]int]int{{}: 1}, false},
		{"map[[1]interface{}]int", map[[1]interface{}]int{{"1"}: 1, {1}: 2, {nil}: 3, {""}: 4}, false}, {"map[[2]interface{}]int", map[[2]interface{}]int{{"1", nil}: 1, {"1", 0}: 2, {"x", ""}: 3}, false},
		{"map[[1]keyAny]int", map[[1]keyAny]int{{"1"}: 1}, false}, {"map[[1]*int]int", map[[1]*int]int{{&one}: 1, {nil}: 2}, false}, {"map[[2]*int]int", map[[2]*int]int{{nil, nil}: 2}, false},
		{"map[[1]keyS]int", map[[1]keyS]int{{{1}}: 1}, false}, {"map[[1]complex128]int", map[[1]complex128]int{{1}: 1}, false}, {"map[[1]chan]int", map[[1]chan int]int{{nil}: 1}, false},
		{"map[[1]unsafe.Pointer]int", map[[1]unsafe.Pointer]int{{nil}: 1}, false}, {"map[unsafe.Pointer]int", map[unsafe.Pointer]int{nil: 1}, false},
		{"map[complex64]int", map[complex64]int{1: 1, 2: 2}, false}, {"map[chan]int", map[chan int]int{nil: 1, make(chan int): 2}, false}, {"map[keyS]int", map[keyS]int{{1}: 1, {2}: 2}, false}, {"map[keyE]int", map[keyE]int{{}: 1}, false},
		{"map[error]int", map[error]int{nil: 1, e: 2, fmt.Errorf("x"): 3}, false}, {"map[Stringer]int", map[fmt.Stringer]int{Sev(1): 1}, false}, {"map[keyAny]int", map[keyAny]int{"1": 1, nil: 2, 1: 3}, false},
		{"map[interface{}]int", map[interface{}]int{"1": 1, nil: 2, 1: 3, [1]int{1}: 4, keyS{1}: 5, &one: 6, true: 7, 1.5: 8}, false},
		{"map[*int]int", map[*int]int{&one: 1, nilp: 2}, false}, {"map[*string]int", map[*string]int{nil: 2}, false}, {"map[*MyStr]int", map[*MyStr]int{nil: 2}, false}, {"map[*bool]int", map[*bool]int{nil: 2}, false},
		{"map[*float32]int", map[*float32]int{nil: 2}, false}, {"map[*uintptr]int", map[*uintptr]int{nil: 2}, false}, {"map[*interface{}]int", map[*interface{}]int{nil: 2}, false},
		{"map[**int]int", map[**int]int{nil: 2}, false}, {"map[*keyS]int", map[*keyS]int{nil: 2, {1}: 1}, false}, {"map[*keyE]int", map[*keyE]int{nil: 2, {}: 1}, false},
		{"map[*[]int]int", map[*[]int]int{nil: 2}, false}, {"map[*[]byte]int", map[*[]byte]int{nil: 2}, false}, {"map[*[]Octet]int", map[*[]Octet]int{nil: 2}, false}, {"map[*[]string]int", map[*[]string]int{nil: 2}, false},
		{"map[*[]keyS]int", map[*[]keyS]int{nil: 2}, false}, {"map[*[][]int]int", map[*[][]int]int{nil: 2}, false}, {"map[*[][]byte]int", map[*[][]byte]int{nil: 2}, false},
		{"map[*map[string]int]int", map[*map[string]int]int{nil: 2}, false}, {"map[*func()]int", map[*func()]int{nil: 2}, false}, {"map[*chan_int]int", map[*chan int]int{nil: 2}, false},
		{"map[*complex128]int", map[*complex128]int{nil: 2}, false}, {"map[*[1]int]int", map[*[1]int]int{nil: 2, {1}: 1}, false}, {"map[*[0]int]int", map[*[0]int]int{nil: 2, {}: 1}, false},
		{"map[*[1]keyE]int", map[*[1]keyE]int{nil: 2, {}: 1}, false}, {"map[*[1]interface{}]int", map[*[1]interface{}]int{nil: 2}, false}, {"map[*[2]float64]int", map[*[2]float64]int{nil: 2}, false},
		{"map[*unsafe.Pointer]int", map[*unsafe.Pointer]int{nil: 2}, false},
		// (F12, fixed) the key type leads, below a pointer, to an array of an uncomparable element type: the
		// library panics, safeGet recovers, Evaluate must answer (false, error)
		{"map[*[1][]int]int", map[*[1][]int]int{nil: 2}, true}, {"map[*[0][]int]int", map[*[0][]int]int{nil: 2}, true}, {"map[*[1]map]int", map[*[1]map[string]int]int{nil: 2}, true},
		{"map[*[1]func]int", map[*[1]func()]int{nil: 2}, true}, {"map[*[][1][]int]int", map[*[][1][]int]int{nil: 2}, true}, {"map[**[1][]int]int", map[**[1][]int]int{nil: 2}, true},
		{"map[[1]*[1][]int]int", map[[1]*[1][]int]int{{nil}: 2}, true}, {"map[*[1][1][]int]int", map[*[1][1][]int]int{nil: 2}, true}, {"map[*[1]struct{[]int}]int", map[*[1]struct{ X []int }]int{nil: 2}, true},
	}
}

// CachingQuantity caches its printed form into the receiver, like k8s resource.Quantity
type CachingQuantity struct {
	I int
	S string
}

func (q *CachingQuantity) String() string {
	if q.S == "" {
		q.S = fmt.Sprint(q.I) + "m"
	}
	return q.S
}

type CachingHolder struct {
	Name  string
	Limit *CachingQuantity
	Reqs  []*CachingQuantity
}

// systematicShapes: every element type of the zoo under every container constructor reflect offers
// ([]T, [N]T, [0]T, *T, *[N]T, *[]T, []*T, [N]*T, map[string]T, []interface{}{T}, [1]interface{}{T}); the element
// is the value the literal "1" denotes in that type where there is one.  The Go TYPE of the data is
// what several seeded changes depended on (byte arrays vs byte slices, addressability, defined types).
func scalarElems() []shape {
	return []shape{
		{"bool", true}, {"int", 1}, {"int8", int8(1)}, {"int16", int16(1)}, {"int32", int32(1)}, {"int64", int64(1)},
		{"uint", uint(1)}, {"uint8", uint8('1')}, {"uint16", uint16(1)}, {"uint32", uint32(1)}, {"uint64", uint64(1)},
		{"float32", float32(1)}, {"float64", 1.0}, {"string", "1"}, {"MyStr", MyStr("1")}, {"MyInt", MyInt(1)}, {"MyBool", MyBool(true)},
		{"Octet", Octet('1')}, {"MyFloat32", MyFloat32(1)}, {"json.Number", jsonNumber("1")}, {"struct", Inner{}}, {"[]byte", []byte("1")},
		{"complex128", complex128(1)},
	}
}

func systematicShapes() []shape {
	elems := scalarElems()
	var out []shape
	for _, e := range elems {
		ev := reflect.ValueOf(e.val)
		t := ev.Type()
		sl := reflect.MakeSlice(reflect.SliceOf(t), 2, 2)
		sl.Index(0).Set(ev)
		arr := reflect.New(reflect.ArrayOf(2, t)).Elem()
		arr.Index(1).Set(ev)
		arr4 := reflect.New(reflect.ArrayOf(4, t)).Elem()
		for i := 0; i < 4; i++ {
			arr4.Index(i).Set(ev)
		}
		arr0 := reflect.New(reflect.ArrayOf(0, t)).Elem()
		ptr := reflect.New(t)
		ptr.Elem().Set(ev)
		parr := reflect.New(arr.Type())
		parr.Elem().Set(arr)
		psl := reflect.New(sl.Type())
		psl.Elem().Set(sl)
		slp := reflect.MakeSlice(reflect.SliceOf(ptr.Type()), 2, 2)
		slp.Index(0).Set(ptr)
		arrp := reflect.New(reflect.ArrayOf(2, ptr.Type())).Elem()
		arrp.Index(0).Set(ptr)
		mp := reflect.MakeMap(reflect.MapOf(reflect.TypeOf(""), t))
		mp.SetMapIndex(reflect.ValueOf("1"), ev)
		out = append(out,
			shape{"[]" + e.name, sl.Interface()}, shape{"[2]" + e.name, arr.Interface()}, shape{"[4]" + e.name, arr4.Interface()}, shape{"[0]" + e.name, arr0.Interface()},
			shape{"*" + e.name, ptr.Interface()}, shape{"*[2]" + e.name, parr.Interface()}, shape{"*[]" + e.name, psl.Interface()},
			shape{"[]*" + e.name, slp.Interface()}, shape{"[2]*" + e.name, arrp.Interface()}, shape{"map[string]" + e.name, mp.Interface()},
			shape{"[]interface{}{" + e.name + "}", []interface{}{e.val, e.val}}, shape{"[1]interface{}{" + e.name + "}", [1]interface{}{e.val}})
	}
	return out
}

func fragMatrix(g *Gen, n int, o *Out) {
	shapes := matrixShapes()
	nBase := len(shapes)
	shapes = append(shapes, systematicShapes()...)
	lits := []string{"1", "a", "", "true", "1.5", "x y", "99999999999999999999", "<invalid Value>"}
	total := 0
	allLits := lits
	for si, sh := range shapes {
		lits = allLits
		if si >= nBase {
			lits = []string{"1", "a", ""}
		}
		// three placements: as the datum itself (selector misses), as a map value, as a struct field
		holders := []interface{}{
			map[string]interface{}{"v": sh.val},
			struct{ V interface{} }{sh.val},
			[]interface{}{sh.val},
		}
		sels := [][]string{{"v"}, {"V"}, {"0"}}
		for hi, h := range holders {
			for _, op := range matchOps {
				for _, lit := range lits {
					if (op == "empty" || op == "notempty") && lit != "1" {
						continue
					}
					m := GMatch{Path: sels[hi], Op: op, Raw: lit, SelStyle: map[bool]int{true: 2, false: 1}[hi == 2], LitStyle: 2}
					if op == "matches" || op == "notmatches" {
						m.LitStyle = 3
					}
					r, text, ok := evalG(g, o, nil, m, h)
					if !ok {
						continue
					}
					total++
					o.count("matrix:" + op + ":" + norm(r))
					if r == "P" {
						o.finding(Finding{Property: "C09", Kind: "failing-input", What: fmt.Sprintf("Evaluate panics: %s on %s", op, sh.name), Request: lastReq(o), Detail: text + " shape=" + sh.name})
					}
					if r == "E1" {
						o.finding(Finding{Property: "C09", Kind: "failing-input", What: "error returned together with true", Request: lastReq(o), Detail: text + " shape=" + sh.name})
					}
				}
			}
			// quantifiers and negation over the shape
			for ci, cop := range []string{"all", "any", "all", "any"} {
				c := GColl{Op: cop, Path: sels[hi], Mode: []string{"default", "indexvalue"}[g.r.Intn(2)], Def: "x", Idx: "k", Val: "x",
					Inner: GMatch{Path: []string{"x"}, Op: matchOps[g.r.Intn(len(matchOps))], Raw: "1", LitStyle: 2}, SelStyle: map[bool]int{true: 2, false: 1}[hi == 2]}
				if ci >= 2 {
					// a body that names a field / key of the element
					c.Inner = GMatch{Path: []string{"x", []string{"Name", "V", "N", "1"}[g.r.Intn(4)]}, Op: matchOps[g.r.Intn(len(matchOps))], Raw: "1", LitStyle: 2}
				}
				for _, e := range []GExpr{c, GNot{c}} {
					r, text, ok := evalG(g, o, nil, e, h)
					if ok && (r == "P" || r == "E1") {
						what := "Evaluate panics"
						if r == "E1" {
							what = "error returned together with true"
						}
						o.finding(Finding{Property: "C09", Kind: "failing-input", What: fmt.Sprintf("%s: quantifier over %s", what, sh.name), Request: lastReq(o), Detail: text})
					}
				}
			}
		}
		// the shape as the whole datum
		for _, op := range matchOps {
			m := GMatch{Path: []string{"v"}, Op: op, Raw: "1", LitStyle: 2}
			if r, text, ok := evalG(g, o, nil, m, sh.val); ok && (r == "P" || r == "E1") {
				o.finding(Finding{Property: "C09", Kind: "failing-input", What: fmt.Sprintf("Evaluate panics or errs with true: %s with datum %s", op, sh.name), Request: lastReq(o), Detail: text})
			}
		}
	}
	// key sweep: step INTO maps of every key type with every class of path part (the coercion of the part to
	// the key type: pointerstructure.coerce / mapstructure.WeakDecode), directly and one level down
	keyTotal := 0
	for _, sh := range keyShapes() {
		for _, part := range []string{"1", "", "x", "true", "1.5", "-1", "0x10", "300", "NaN", "-0", "1e40", "12"} {
			for _, tail := range []string{`== "1"`, `== 1`, `is empty`, `!= 1`} {
				for hi, h := range []interface{}{sh.val, map[string]interface{}{"m": sh.val}} {
					text := fmt.Sprintf(`"/%s" %s`, part, tail)
					if hi == 1 {
						text = fmt.Sprintf(`"/m/%s" %s`, part, tail)
					}
					r := evalText(o, nil, text, h)
					keyTotal++
					o.count("keys:" + norm(r))
					if r == "P" || r == "E1" {
						what := "Evaluate panics"
						if r == "E1" {
							what = "error returned together with true"
						}
						o.finding(Finding{Property: "C09", Kind: "failing-input", What: fmt.Sprintf("%s: lookup of %q in %s", what, part, sh.name), Request: lastReq(o), Detail: text})
					}
				}
			}
		}
	}
	o.meta.Notes = append(o.meta.Notes, fmt.Sprintf("key sweep: %d lookups into maps of every key type", keyTotal))
	o.meta.Notes = append(o.meta.Notes, fmt.Sprintf("operator x shape matrix: %d shapes x 3 placements x 8 operators x literals = %d evaluations (exhaustive over the table)", len(shapes), total))
	// random nesting
	for i := 0; i < n; i++ {
		opts, expr, _, datum, ok := g.genEvalCase()
		if !ok {
			continue
		}
		r := evalText(o, opts, expr, datum)
		hasHook := false
		for _, op := range opts {
			if op.Kind == "hook" {
				hasHook = true
			}
		}
		_ = hasHook
		if r == "P" || r == "E1" {
			what := "Evaluate panics"
			if r == "E1" {
				what = "error returned together with true"
			}
			o.finding(Finding{Property: "C09", Kind: "failing-input", What: what, Request: lastReq(o), Detail: expr})
		}
	}
}

// ---------------------------------------------------------------- C02

// refEqual: the documented meaning of `sel == lit` for a scalar value: T/F/E.
func refEqual(v reflect.Value, lit string) string {
	switch v.Kind() {
	case reflect.Bool:
		b, err := strconv.ParseBool(lit)
		if err != nil {
			return "E"
		}
		return tf(b == v.Bool())
	case reflect.Int, reflect.Int8, reflect.Int16, reflect.Int32, reflect.Int64:
		x, err := strconv.ParseInt(lit, 0, 64)
		if err != nil {
			return "E"
		}
		return tf(x == v.Int())
	case reflect.Uint, reflect.Uint8, reflect.Uint16, reflect.Uint32, reflect.Uint64:
		x, err := strconv.ParseUint(lit, 0, 64)
		if err != nil {
			return "E"
		}
		return tf(x == v.Uint())
	case reflect.Float32:
		x, err := strconv.ParseFloat(lit, 32)
		if err != nil {
			return "E"
		}
		return tf(float32(x) == float32(v.Float()))
	case reflect.Float64:
		x, err := strconv.ParseFloat(lit, 64)
		if err != nil {
			return "E"
		}
		return tf(x == v.Float())
	case reflect.String:
		return tf(lit == v.String())
	}
	return "E"
}

func tf(b bool) string {
	if b {
		return "T"
	}
	return "F"
}

// refEqualJSONNumber: a json.Number is an int64 if it reads as one (exactly, base 10), else a
// float64, else the comparison is an error.
func refEqualJSONNumber(num string, lit string) string {
	if x, err := strconv.ParseInt(num, 10, 64); err == nil {
		y, err := strconv.ParseInt(lit, 0, 64)
		if err != nil {
			return "E"
		}
		return tf(x == y)
	}
	if x, err := strconv.ParseFloat(num, 64); err == nil {
		y, err := strconv.ParseFloat(lit, 64)
		if err != nil {
			return "E"
		}
		return tf(x == y)
	}
	return "E"
}

// bareLiteralTable: every shape of unquoted literal the grammar admits (it reads them through the Selector rule and
// takes the literal's text from the printed selector), compared as the text that was written.
func bareLiteralTable(o *Out) {
	words := []string{"v1", "v1.2", "eth0.100", "a.0", "rack.7", "a.b.3.c", "x/y.z", "a_b.c_d", "A.B", "n.007", "r2.d2.0", "a.0.1", "k/8s.io", "x.y", "w"}
	for _, w := range words {
		d := map[string]interface{}{"s": w, "l": []string{"x", w}, "m": map[string]int{w: 1}, "t": "<" + w + ">", "n": []interface{}{w + "!", 1}}
		for _, c := range []struct{ text, want string }{
			{"s == " + w, "T"}, {"s != " + w, "F"}, {w + " in l", "T"}, {w + " not in l", "F"}, {w + " in m", "T"}, {"m contains " + w, "T"},
			{"t contains " + w, "T"}, {"s matches " + w, "T"}, {"s not matches " + w, "F"}, {"s == \"" + w + "\"", "T"}, {"s == `" + w + "`", "T"},
			{"t == " + w, "F"}, {"all l as e { e == x or e == " + w + " }", "T"},
		} {
			if got := norm(evalText(o, nil, c.text, d)); got != c.want {
				for _, prop := range []string{"C01", "C04", "C02"} {
					o.finding(Finding{Property: prop, Kind: "failing-input", What: fmt.Sprintf("the unquoted literal %s: %q gives %s, want %s", w, c.text, got, c.want), Request: lastReq(o)})
				}
			}
		}
		// a selector-shaped value written with index expressions: only compared with the model
		parts := strings.Split(w, ".")
		if len(parts) > 1 {
			br := parts[0]
			for _, p := range parts[1:] {
				br += "[\"" + p + "\"]"
			}
			evalText(o, nil, "s == "+br, d)
			evalText(o, nil, br+" in l", d)
			evalText(o, nil, "s == "+parts[0]+"[\"b c\"]", map[string]interface{}{"s": parts[0] + ".b c"})
		}
	}
}

func fragScalarEq(g *Gen, n int, o *Out) {
	bareLiteralTable(o)
	// json.Number: integers are compared exactly (also above 2^53), everything else as float64
	nums := []string{"0", "7", "-1", "9007199254740992", "9007199254740993", "-9007199254740993", "9223372036854775807", "-9223372036854775808",
		"1234567890123456789", "9223372036854775808", "1.5", "1e3", "0.1", "1e400", "abc", "", "1.0", "100"}
	for _, num := range nums {
		lits := []string{num, "9007199254740992", "9007199254740993", "9007199254740994", "1234567890123456788", "1234567890123456789", "1000", "1.5", "0x10", "7", "abc", ""}
		if x, err := strconv.ParseInt(num, 10, 64); err == nil {
			lits = append(lits, strconv.FormatInt(x-1, 10), "0x"+strconv.FormatInt(x, 16))
		}
		for _, lit := range lits {
			for _, d := range []interface{}{map[string]interface{}{"x": jsonNumber(num)}, map[string]jsonNumber{"x": jsonNumber(num)}} {
				m := GMatch{Path: []string{"x"}, Op: "eq", Raw: lit, LitStyle: 2}
				r, text, ok := evalG(g, o, nil, m, d)
				if !ok {
					continue
				}
				want := refEqualJSONNumber(num, lit)
				o.count("eq:json.Number:" + want)
				if norm(r) != want {
					o.finding(Finding{Property: "C02", Kind: "failing-input", What: fmt.Sprintf("json.Number(%q) == %q gives %s, reference says %s", num, lit, r, want), Request: lastReq(o), Detail: text})
				}
			}
		}
	}
	for i := 0; i < n; i++ {
		t := scalarTypes[g.r.Intn(len(scalarTypes))]
		if t == reflect.TypeOf(jsonNumber("")) {
			continue
		}
		v := g.randValue(t, 1)
		// placements: plain, pointer, interface, defined type is already in scalarTypes
		var field interface{} = v.Interface()
		switch g.r.Intn(4) {
		case 0:
			p := reflect.New(t)
			p.Elem().Set(v)
			field = p.Interface()
		}
		datum := map[string]interface{}{"x": field}
		lits := g.literalsFor(v)
		for _, lit := range lits {
			m := GMatch{Path: []string{"x"}, Op: "eq", Raw: lit}
			r, text, ok := evalG(g, o, nil, m, datum)
			if !ok {
				continue
			}
			want := refEqual(v, lit)
			o.count("eq:" + v.Kind().String() + ":" + want)
			if norm(r) != want {
				o.finding(Finding{Property: "C02", Kind: "failing-input", What: fmt.Sprintf("%v (%s) == %q gives %s, reference says %s", v.Interface(), t, lit, r, want), Request: lastReq(o), Detail: text})
			}
		}
		// the same comparison reached through a quantifier over a one-element container: the element
		// is still compared in its own type, and a literal that is invalid for it is still an error
		{
			ts := reflect.MakeSlice(reflect.SliceOf(t), 1, 1)
			ts.Index(0).Set(v)
			cdatum := map[string]interface{}{"xs": []interface{}{field}, "ms": map[string]interface{}{"k": field}, "ts": ts.Interface()}
			for c := 0; c < 3; c++ {
				lit := lits[g.r.Intn(len(lits))]
				if c == 0 {
					lit = []string{"seven", "abc", "1x", "--1"}[g.r.Intn(4)]
				}
				want := refEqual(v, lit)
				neg := map[string]string{"T": "F", "F": "T", "E": "E"}[want]
				for _, q := range []struct {
					e    GExpr
					want string
				}{
					{GColl{Op: "any", Path: []string{"xs"}, Mode: "default", Def: "e", Inner: GMatch{Path: []string{"e"}, Op: "eq", Raw: lit}}, want},
					{GColl{Op: "all", Path: []string{"ms"}, Mode: "indexvalue", Idx: "k", Val: "e", Inner: GMatch{Path: []string{"e"}, Op: "eq", Raw: lit}}, want},
					{GColl{Op: "any", Path: []string{"ts"}, Mode: "indexvalue", Idx: "i", Val: "e", Inner: GMatch{Path: []string{"e"}, Op: "eq", Raw: lit}}, want},
					{GColl{Op: "all", Path: []string{"xs"}, Mode: "default", Def: "e", Inner: GMatch{Path: []string{"e"}, Op: "ne", Raw: lit}}, neg},
					{GColl{Op: "any", Path: []string{"ms"}, Mode: "indexvalue", Idx: "k", Val: "e", Inner: GMatch{Path: []string{"e"}, Op: "ne", Raw: lit}}, neg},
				} {
					r, text, ok := evalG(g, o, nil, q.e, cdatum)
					if !ok {
						continue
					}
					o.count("eq-in-quantifier:" + q.want)
					if norm(r) != q.want {
						o.finding(Finding{Property: "C02", Kind: "failing-input", What: fmt.Sprintf("%v (%s) compared with %q inside a quantifier over a one-element container gives %s, reference says %s", v.Interface(), t, lit, r, q.want), Request: lastReq(o), Detail: text})
					}
				}
			}
		}
		// non-scalars are errors
		if i%10 == 0 {
			for _, ns := range []interface{}{nil, []int{1}, map[string]int{"a": 1}, Inner{}, (*int)(nil)} {
				m := GMatch{Path: []string{"x"}, Op: "eq", Raw: "1"}
				r, text, ok := evalG(g, o, nil, m, map[string]interface{}{"x": ns})
				if ok && norm(r) != "E" {
					o.finding(Finding{Property: "C02", Kind: "failing-input", What: fmt.Sprintf("equality against non-scalar %T gives %s", ns, r), Request: lastReq(o), Detail: text})
				}
			}
		}
	}
}
