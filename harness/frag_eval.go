package main

import "strings"

func init() {
	fragments["eval"] = fragEval
}

func opsIn(wire string) []string {
	var r []string
	for _, op := range []string{" eq ", " ne ", " in ", " notin ", " empty ", " notempty ", " matches ", " notmatches ", "( coll all", "( coll any", "( not ", "( and ", "( or "} {
		if strings.Contains(wire, op) {
			r = append(r, strings.TrimSpace(op))
		}
	}
	return r
}

// FR-eval: CreateEvaluator + Evaluate on type-directed (expression, datum) pairs.
func fragEval(g *Gen, n int, o *Out) {
	for i := 0; i < n; i++ {
		opts, expr, wire, datum, ok := g.genEvalCase()
		if !ok {
			o.count("unrenderable")
			continue
		}
		req, ans := evalCase(opts, expr, datum)
		for _, m := range mutations {
			o.finding(m)
		}
		mutations = nil
		o.emit(req, ans)
		o.count("outcome:" + ans)
		for _, op := range opsIn(wire) {
			o.count("node:" + op)
		}
	}
}
