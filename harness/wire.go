package main

// Wire format shared with the Lean driver (lean/Bexpr/Wire.lean): S-expressions over
// space-separated tokens, byte strings in lowercase hex with an "x" prefix.

import (
	"encoding/hex"
	"fmt"
	"hash/fnv"
	"math"
	"reflect"
	"sort"
	"strings"

	"github.com/hashicorp/go-bexpr/grammar"
)

func hx(s string) string { return "x" + hex.EncodeToString([]byte(s)) }

func b01(b bool) string {
	if b {
		return "1"
	}
	return "0"
}

// tag keys whose Tag.Get result is shipped to the model
var tagKeys = []string{"bexpr", "json", "pointer", "alt", "étiq"}

func typeName(t reflect.Type) string {
	// a struct type is known to the model by its name only: the names of the struct types that are NOT
	// comparable carry the suffix "#nc" (GoType.comparable in lean/Bexpr/Go/Val.lean)
	nc := ""
	if t.Kind() == reflect.Struct && !t.Comparable() {
		nc = "#nc"
	}
	if t.Name() == "" {
		if t.Kind() == reflect.Struct {
			h := fnv.New32a()
			h.Write([]byte(t.String()))
			return fmt.Sprintf("anon%08x", h.Sum32()) + nc
		}
		return "-"
	}
	if t.PkgPath() == "" {
		// predeclared
		return "-"
	}
	return strings.ReplaceAll(t.String(), " ", "_") + nc
}

// serKey serialises a map key.  A key held in a slot of NON-EMPTY interface type (map[error]V) is
// opaque to the model, nil or not: no path part is ever converted to such a type.
func serKey(k reflect.Value) string {
	if k.Kind() == reflect.Interface && k.Type().NumMethod() != 0 {
		return fmt.Sprintf("( O interface %s %s )", typeName(k.Type()), b01(k.IsNil()))
	}
	return serVal(k)
}

func kindName(k reflect.Kind) string { return k.String() }

func serType(t reflect.Type) string {
	switch t.Kind() {
	case reflect.Bool, reflect.Int, reflect.Int8, reflect.Int16, reflect.Int32, reflect.Int64,
		reflect.Uint, reflect.Uint8, reflect.Uint16, reflect.Uint32, reflect.Uint64, reflect.Uintptr,
		reflect.Float32, reflect.Float64, reflect.Complex64, reflect.Complex128, reflect.String:
		return fmt.Sprintf("( b %s %s )", kindName(t.Kind()), typeName(t))
	case reflect.Ptr:
		return fmt.Sprintf("( p %s )", serType(t.Elem()))
	case reflect.Slice:
		return fmt.Sprintf("( s %s %s )", typeName(t), serType(t.Elem()))
	case reflect.Array:
		return fmt.Sprintf("( a %d %s )", t.Len(), serType(t.Elem()))
	case reflect.Map:
		return fmt.Sprintf("( m %s %s %s )", typeName(t), serType(t.Key()), serType(t.Elem()))
	case reflect.Struct:
		return fmt.Sprintf("( st %s )", typeName(t))
	case reflect.Interface:
		if t.NumMethod() == 0 {
			return "i"
		}
		return fmt.Sprintf("( o interface %s )", typeName(t))
	default:
		return fmt.Sprintf("( o %s %s )", kindName(t.Kind()), typeName(t))
	}
}

// serVal serialises a valid reflect.Value together with the static type information the model
// needs.  Interface-typed slots keep their interface-ness ("X").
func serVal(v reflect.Value) string {
	t := v.Type()
	switch v.Kind() {
	case reflect.Bool:
		return fmt.Sprintf("( B %s %s )", typeName(t), b01(v.Bool()))
	case reflect.Int, reflect.Int8, reflect.Int16, reflect.Int32, reflect.Int64:
		return fmt.Sprintf("( I %s %s %d )", kindName(v.Kind()), typeName(t), v.Int())
	case reflect.Uint, reflect.Uint8, reflect.Uint16, reflect.Uint32, reflect.Uint64, reflect.Uintptr:
		return fmt.Sprintf("( U %s %s %d )", kindName(v.Kind()), typeName(t), v.Uint())
	case reflect.Float32:
		return fmt.Sprintf("( F float32 %s %d )", typeName(t), math.Float32bits(float32(v.Float())))
	case reflect.Float64:
		return fmt.Sprintf("( F float64 %s %d )", typeName(t), math.Float64bits(v.Float()))
	case reflect.Complex64, reflect.Complex128:
		return fmt.Sprintf("( C %s %s )", kindName(v.Kind()), typeName(t))
	case reflect.String:
		return fmt.Sprintf("( S %s %s )", typeName(t), hx(v.String()))
	case reflect.Ptr:
		if v.IsNil() {
			return fmt.Sprintf("( P %s nil )", serType(t.Elem()))
		}
		return fmt.Sprintf("( P %s %s )", serType(t.Elem()), serVal(v.Elem()))
	case reflect.Slice:
		var sb strings.Builder
		fmt.Fprintf(&sb, "( L %s %s %s", typeName(t), serType(t.Elem()), b01(v.IsNil()))
		for i := 0; i < v.Len(); i++ {
			sb.WriteString(" ")
			sb.WriteString(serVal(v.Index(i)))
		}
		sb.WriteString(" )")
		return sb.String()
	case reflect.Array:
		var sb strings.Builder
		fmt.Fprintf(&sb, "( A %s", serType(t.Elem()))
		for i := 0; i < v.Len(); i++ {
			sb.WriteString(" ")
			sb.WriteString(serVal(v.Index(i)))
		}
		sb.WriteString(" )")
		return sb.String()
	case reflect.Map:
		type kv struct{ k, v string }
		var es []kv
		// MapRange, not MapKeys + MapIndex: an entry under a NaN key cannot be looked up
		for it := v.MapRange(); it.Next(); {
			es = append(es, kv{serKey(it.Key()), serVal(it.Value())})
		}
		// keys whose identity the wire does not carry (pointers, complex numbers, opaque interface keys) may
		// print alike: break ties by the value, so that the wire form is a function of the datum
		sort.Slice(es, func(i, j int) bool { return es[i].k < es[j].k || (es[i].k == es[j].k && es[i].v < es[j].v) })
		var sb strings.Builder
		fmt.Fprintf(&sb, "( M %s %s %s %s", typeName(t), serType(t.Key()), serType(t.Elem()), b01(v.IsNil()))
		for _, e := range es {
			fmt.Fprintf(&sb, " ( %s %s )", e.k, e.v)
		}
		sb.WriteString(" )")
		return sb.String()
	case reflect.Struct:
		var sb strings.Builder
		fmt.Fprintf(&sb, "( T %s", typeName(t))
		for i := 0; i < t.NumField(); i++ {
			f := t.Field(i)
			fmt.Fprintf(&sb, " ( f %s %s (", hx(f.Name), b01(f.PkgPath == ""))
			for _, k := range tagKeys {
				if tv := f.Tag.Get(k); tv != "" {
					fmt.Fprintf(&sb, " ( %s %s )", hx(k), hx(tv))
				}
			}
			fmt.Fprintf(&sb, " ) %s )", serVal(v.Field(i)))
		}
		sb.WriteString(" )")
		return sb.String()
	case reflect.Interface:
		if v.IsNil() {
			return "( X nil )"
		}
		if t.NumMethod() != 0 {
			return fmt.Sprintf("( O interface %s 0 )", typeName(t))
		}
		return fmt.Sprintf("( X %s )", serVal(v.Elem()))
	case reflect.Chan, reflect.Func, reflect.UnsafePointer:
		isNil := false
		if v.Kind() != reflect.UnsafePointer {
			isNil = v.IsNil()
		} else {
			isNil = v.Pointer() == 0
		}
		return fmt.Sprintf("( O %s %s %s )", kindName(v.Kind()), typeName(t), b01(isNil))
	}
	return "( O invalid - 1 )"
}

// serAny serialises an interface{} value (the datum handed to Evaluate / Execute).
func serAny(x interface{}) string {
	if x == nil {
		return "nil"
	}
	return serVal(reflect.ValueOf(x))
}

func serSelector(s grammar.Selector) string {
	ty := "unknown"
	switch s.Type {
	case grammar.SelectorTypeBexpr:
		ty = "bexpr"
	case grammar.SelectorTypeJsonPointer:
		ty = "ptr"
	}
	var sb strings.Builder
	sb.WriteString("( sel " + ty)
	for _, p := range s.Path {
		sb.WriteString(" " + hx(p))
	}
	sb.WriteString(" )")
	return sb.String()
}

var matchOpWire = map[grammar.MatchOperator]string{
	grammar.MatchEqual: "eq", grammar.MatchNotEqual: "ne", grammar.MatchIn: "in", grammar.MatchNotIn: "notin",
	grammar.MatchIsEmpty: "empty", grammar.MatchIsNotEmpty: "notempty", grammar.MatchMatches: "matches",
	grammar.MatchNotMatches: "notmatches",
}

func serExpr(e grammar.Expression) string {
	switch n := e.(type) {
	case *grammar.UnaryExpression:
		if n == nil {
			return "nilnode"
		}
		if n.Operator == grammar.UnaryOpNot {
			return "( not " + serExpr(n.Operand) + " )"
		}
		return "( unary? )"
	case *grammar.BinaryExpression:
		if n == nil {
			return "nilnode"
		}
		op := "binary?"
		switch n.Operator {
		case grammar.BinaryOpAnd:
			op = "and"
		case grammar.BinaryOpOr:
			op = "or"
		}
		return "( " + op + " " + serExpr(n.Left) + " " + serExpr(n.Right) + " )"
	case *grammar.MatchExpression:
		if n == nil {
			return "nilnode"
		}
		op, ok := matchOpWire[n.Operator]
		if !ok {
			op = "op?"
		}
		val := "-"
		if n.Value != nil {
			val = hx(n.Value.Raw)
		}
		return "( match " + serSelector(n.Selector) + " " + op + " " + val + " )"
	case *grammar.CollectionExpression:
		if n == nil {
			return "nilnode"
		}
		op := "collop?"
		switch n.Op {
		case grammar.CollectionOpAll:
			op = "all"
		case grammar.CollectionOpAny:
			op = "any"
		}
		mode := "mode?"
		switch n.NameBinding.Mode {
		case grammar.CollectionBindDefault:
			mode = "default"
		case grammar.CollectionBindIndex:
			mode = "index"
		case grammar.CollectionBindValue:
			mode = "value"
		case grammar.CollectionBindIndexAndValue:
			mode = "indexvalue"
		}
		return fmt.Sprintf("( coll %s %s ( bind %s %s %s %s ) %s )", op, serSelector(n.Selector), mode,
			hx(n.NameBinding.Default), hx(n.NameBinding.Index), hx(n.NameBinding.Value), serExpr(n.Inner))
	case nil:
		return "nil"
	}
	return "other"
}

// sortedMapKeys lists the keys of a map in a canonical order (by their wire form), so that nothing
// a generator derives from a map depends on Go's randomised iteration order: every case stream is a
// function of the seed alone.
func sortedMapKeys(v reflect.Value) []reflect.Value {
	ks := v.MapKeys()
	type kk struct {
		s string
		k reflect.Value
	}
	tmp := make([]kk, len(ks))
	for i, k := range ks {
		tmp[i] = kk{serVal(k), k}
	}
	sort.SliceStable(tmp, func(i, j int) bool { return tmp[i].s < tmp[j].s })
	for i := range tmp {
		ks[i] = tmp[i].k
	}
	return ks
}
