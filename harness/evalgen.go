package main

// Type-directed generation of (expression, datum) pairs: selectors mostly resolve, literals are
// mostly rendered from the selected value (equal or different), every operator and binding mode
// occurs, plus a separate ill-typed stream.

import (
	"encoding/json"
	"fmt"
	"math"
	"reflect"
	"strconv"
	"strings"
)

type PathInfo struct {
	Parts []string
	Val   reflect.Value // value at the path as pointerstructure would see it (may be invalid)
}

func keyString(k reflect.Value) (string, bool) {
	for k.Kind() == reflect.Interface {
		if k.IsNil() {
			return "", false
		}
		k = k.Elem()
	}
	switch k.Kind() {
	case reflect.String:
		return k.String(), true
	case reflect.Int, reflect.Int8, reflect.Int16, reflect.Int32, reflect.Int64:
		return strconv.FormatInt(k.Int(), 10), true
	case reflect.Uint, reflect.Uint8, reflect.Uint16, reflect.Uint32, reflect.Uint64:
		return strconv.FormatUint(k.Uint(), 10), true
	case reflect.Bool:
		return strconv.FormatBool(k.Bool()), true
	case reflect.Float32, reflect.Float64:
		return strconv.FormatFloat(k.Float(), 'g', -1, 64), true
	}
	return "", false
}

func unwrapIP(v reflect.Value) reflect.Value {
	for v.IsValid() && v.Kind() == reflect.Interface {
		v = v.Elem()
	}
	for v.IsValid() && v.Kind() == reflect.Ptr {
		v = v.Elem()
	}
	return v
}

// enumPaths lists the paths of a datum (all prefixes included), following the walk of
// pointerstructure under the given tag name.
func enumPaths(v reflect.Value, tag string, prefix []string, depth int, out *[]PathInfo) {
	if depth <= 0 || len(*out) > 400 {
		return
	}
	cur := unwrapIP(v)
	if !cur.IsValid() {
		return
	}
	add := func(part string, child reflect.Value) {
		p := append(append([]string{}, prefix...), part)
		*out = append(*out, PathInfo{Parts: p, Val: child})
		enumPaths(child, tag, p, depth-1, out)
	}
	switch cur.Kind() {
	case reflect.Map:
		for _, k := range sortedMapKeys(cur) {
			if cur.Type().Key().Kind() == reflect.Interface {
				// a path part is a string: it only addresses keys whose dynamic type is exactly string
				if kk := k.Elem(); !kk.IsValid() || kk.Type() != reflect.TypeOf("") {
					continue
				}
			}
			if ks, ok := keyString(k); ok {
				add(ks, cur.MapIndex(k))
			}
		}
	case reflect.Slice, reflect.Array:
		for i := 0; i < cur.Len() && i < 4; i++ {
			add(strconv.Itoa(i), cur.Index(i))
		}
	case reflect.Struct:
		t := cur.Type()
		for i := 0; i < t.NumField(); i++ {
			f := t.Field(i)
			if f.PkgPath != "" {
				continue
			}
			name := f.Name
			if tv := f.Tag.Get(tag); tv != "" {
				if j := strings.Index(tv, ","); j >= 0 {
					tv = tv[:j]
				}
				if tv == "-" {
					continue
				}
				if tv == "" {
					continue // e.g. `,omitempty`: unreachable by its Go name and has no tag name
				}
				name = tv
			}
			add(name, cur.Field(i))
		}
	}
}

// literalsFor proposes literals for comparing against value v: spellings of v itself, of a nearby
// different value, and ill-typed / out-of-range ones.
func (g *Gen) literalsFor(v reflect.Value) []string {
	v = unwrapIP(v)
	if !v.IsValid() {
		return []string{"x", "0", ""}
	}
	if v.Type() == reflect.TypeOf(json.Number("")) {
		s := v.String()
		return []string{s, "0", "1", "42", "1.5", "1000", "abc", "0x2a", s + "0"}
	}
	switch v.Kind() {
	case reflect.Bool:
		if v.Bool() {
			return []string{"true", "1", "t", "T", "TRUE", "True", "false", "0", "yes", "tRuE", ""}
		}
		return []string{"false", "0", "f", "F", "FALSE", "False", "true", "1", "no", "", "2"}
	case reflect.Int, reflect.Int8, reflect.Int16, reflect.Int32, reflect.Int64:
		x := v.Int()
		out := []string{strconv.FormatInt(x, 10), strconv.FormatInt(x+1, 10), "0", "abc", "1.5", "", "9223372036854775808",
			"-9223372036854775809", "1e3", " 1", "+" + strconv.FormatInt(x, 10)}
		if x >= 0 {
			out = append(out, "0x"+strconv.FormatInt(x, 16), "0X"+strings.ToUpper(strconv.FormatInt(x, 16)),
				"0o"+strconv.FormatInt(x, 8), "0b"+strconv.FormatInt(x, 2), "0"+strconv.FormatInt(x, 8), "+0x"+strconv.FormatInt(x, 16))
			if x >= 1000 {
				s := strconv.FormatInt(x, 10)
				out = append(out, s[:len(s)-3]+"_"+s[len(s)-3:], s+"_", "_"+s)
			}
		} else {
			out = append(out, "-0x"+strconv.FormatUint(uint64(-x), 16), "-0b"+strconv.FormatUint(uint64(-x), 2))
		}
		if w := v.Type().Bits(); w < 64 {
			// valid 64-bit literals that are congruent to the value modulo 2^width (a comparison made
			// after narrowing the literal would call them equal), and the first values out of range
			m := int64(1) << uint(w)
			out = append(out, strconv.FormatInt(x+m, 10), strconv.FormatInt(x-m, 10), strconv.FormatInt(x+2*m, 10), strconv.FormatInt(m/2, 10), strconv.FormatInt(-m/2-1, 10),
				"0x"+strconv.FormatInt(int64(uint64(x)&uint64(m-1))+m, 16))
		}
		return out
	case reflect.Uint, reflect.Uint8, reflect.Uint16, reflect.Uint32, reflect.Uint64, reflect.Uintptr:
		x := v.Uint()
		s := strconv.FormatUint(x, 10)
		out := []string{s, strconv.FormatUint(x+1, 10), "0", "-1", "abc", "1.5", "", "18446744073709551616", "+" + s,
			"0x" + strconv.FormatUint(x, 16), "0o" + strconv.FormatUint(x, 8), "0b" + strconv.FormatUint(x, 2), "0" + strconv.FormatUint(x, 8)}
		if x >= 1000 {
			out = append(out, s[:len(s)-3]+"_"+s[len(s)-3:], "0x_"+strconv.FormatUint(x, 16))
		}
		if w := v.Type().Bits(); w < 64 && v.Kind() != reflect.Uintptr {
			m := uint64(1) << uint(w)
			out = append(out, strconv.FormatUint(x+m, 10), strconv.FormatUint(x+2*m, 10), strconv.FormatUint(m, 10), "0x"+strconv.FormatUint(x+m, 16))
		}
		return out
	case reflect.Float32, reflect.Float64:
		x := v.Float()
		bits := 64
		if v.Kind() == reflect.Float32 {
			bits = 32
		}
		out := []string{strconv.FormatFloat(x, 'g', -1, bits), strconv.FormatFloat(x, 'f', -1, bits), strconv.FormatFloat(x, 'e', -1, bits),
			strconv.FormatFloat(x, 'g', -1, 64), strconv.FormatFloat(x, 'x', -1, bits), strconv.FormatFloat(x, 'f', 40, 64),
			"0", "-0", "1", "1.5", "abc", "", "1e400", "-1e400", "1e-400", "inf", "-Inf", "nan", "NaN", "0x1p-2", "1_0.5", ".5", "5.", "1e",
			strconv.FormatFloat(math.Nextafter(x, math.Inf(1)), 'g', -1, 64), strconv.FormatFloat(float64(float32(x))*(1+1e-9), 'g', 20, 64)}
		if bits == 32 && !math.IsInf(x, 0) && !math.IsNaN(x) {
			// literals on which reading at 64 bits and narrowing differs from reading at 32 bits: just
			// beside the midpoint of two neighbouring float32 values (double rounding), and beyond the
			// float32 range but inside the float64 range
			f := float32(x)
			up := math.Nextafter32(f, float32(math.Inf(1)))
			dn := math.Nextafter32(f, float32(math.Inf(-1)))
			for _, nb := range []float32{up, dn} {
				if !math.IsInf(float64(nb), 0) {
					mid := strconv.FormatFloat((float64(f)+float64(nb))/2, 'f', -1, 64)
					if !strings.Contains(mid, ".") {
						mid += "."
					}
					out = append(out, mid, mid+"00000000000000000000000000000001", strconv.FormatFloat((float64(f)+float64(nb))/2, 'x', -1, 64))
				}
			}
			out = append(out, "1e39", "-1e39", "3.4028235677973366e38", "340282356779733661637539395458142568448", "3.4028234e38", "0x1p128", "1e-46")
		}
		return out
	case reflect.String:
		s := v.String()
		out := []string{s, s + "x", "", "a", "foo", "bar", "1", "true"}
		if len(s) > 1 {
			out = append(out, s[:len(s)/2], s[1:], strings.ToUpper(s))
		}
		return out
	case reflect.Slice, reflect.Array:
		out := []string{"a", "foo", "1", "0", "7", "42", "true", "", "x", "1.5", "abc", "9223372036854775808", "<invalid Value>"}
		for i := 0; i < v.Len() && i < 4; i++ {
			out = append(out, g.literalsFor(v.Index(i))[:2]...)
		}
		if v.Len() > 0 {
			// every kind of literal (nearby, ill-typed, out of range, odd spellings) of one element
			out = append(out, g.literalsFor(v.Index(g.r.Intn(v.Len())))...)
		}
		return out
	case reflect.Map:
		out := []string{"a", "foo", "k", "zz", "", "1", "0", "true", "bar"}
		for _, k := range sortedMapKeys(v) {
			if ks, ok := keyString(k); ok {
				out = append(out, ks)
			}
		}
		return out
	}
	return []string{"x", "0", "", "1", "true"}
}

var regexps = []string{"a", "^a", "a$", ".*", "^$", "fo+", "(foo|bar)", "[0-9]+", "^[a-z]+$", "(", "[", "a{2,1}", "\\d+", "é", "(?i)FOO", "b.r", "", "\\", "x*", "^.{3}$"}

var matchOps = []string{"eq", "ne", "in", "notin", "empty", "notempty", "matches", "notmatches"}

var absentParts = []string{"zz", "nope", "0", "9", "-1", "", "A", "a", "Hidden", "secret", "hid", "X", "Secret", "priv", "Opt", "J", "jay", "why", "Y", "x y", "0x1", "+1", "1_0", "true"}

var bindNames = []string{"x", "y", "k", "v", "i", "item", "key", "A", "B", "Name", "a", "foo", "M", "In"}

// mutatePath makes a mostly-valid path invalid in one of several ways.
func (g *Gen) mutatePath(p []string) []string {
	q := append([]string{}, p...)
	switch g.r.Intn(5) {
	case 0: // absent leaf
		if len(q) > 0 {
			q[len(q)-1] = absentParts[g.r.Intn(len(absentParts))]
		}
	case 1: // extra step
		q = append(q, absentParts[g.r.Intn(len(absentParts))])
	case 2: // absent intermediate
		if len(q) > 1 {
			q[g.r.Intn(len(q)-1)] = absentParts[g.r.Intn(len(absentParts))]
		} else {
			q = append(q, absentParts[g.r.Intn(len(absentParts))])
		}
	case 3: // absent root
		q = []string{absentParts[g.r.Intn(len(absentParts))]}
	case 4: // case change / trimming variants
		if len(q) > 0 {
			s := q[len(q)-1]
			switch g.r.Intn(3) {
			case 0:
				q[len(q)-1] = strings.ToUpper(s)
			case 1:
				q[len(q)-1] = strings.ToLower(s)
			default:
				q[len(q)-1] = s + " "
			}
		}
	}
	return q
}

// env: bindings in scope while generating a quantifier body
type genBinding struct {
	name  string
	alias []PathInfo // paths below the bound element (relative parts), for value bindings
	isKey bool
	key   reflect.Value
}

// genMatch builds a match expression over the given candidate paths.
func (g *Gen) genMatch(paths []PathInfo, illTyped bool) GExpr {
	var pi PathInfo
	if len(paths) > 0 {
		pi = paths[g.r.Intn(len(paths))]
		// prefer paths whose value an operator can work on (not structs / nil / odd kinds)
		for try := 0; try < 4; try++ {
			sv := unwrapIP(pi.Val)
			if sv.IsValid() && sv.Kind() != reflect.Struct && sv.Kind() != reflect.Chan && sv.Kind() != reflect.Func &&
				sv.Kind() != reflect.Complex128 && sv.Kind() != reflect.Complex64 && sv.Kind() != reflect.UnsafePointer {
				break
			}
			pi = paths[g.r.Intn(len(paths))]
		}
	} else {
		pi = PathInfo{Parts: []string{absentParts[g.r.Intn(len(absentParts))]}}
	}
	parts := pi.Parts
	val := pi.Val
	if g.r.Intn(12) == 0 && !g.noMutate {
		parts = g.mutatePath(parts)
		val = reflect.Value{}
	}
	op := matchOps[g.r.Intn(len(matchOps))]
	if g.r.Intn(8) != 0 {
		// mostly an operator that fits the selected value's kind
		var fit []string
		sv := unwrapIP(val)
		if sv.IsValid() {
			switch sv.Kind() {
			case reflect.Bool, reflect.Int, reflect.Int8, reflect.Int16, reflect.Int32, reflect.Int64, reflect.Uint, reflect.Uint8,
				reflect.Uint16, reflect.Uint32, reflect.Uint64, reflect.Float32, reflect.Float64:
				fit = []string{"eq", "ne", "eq", "ne", "eq"}
			case reflect.String:
				fit = []string{"eq", "ne", "in", "notin", "empty", "notempty", "matches", "notmatches"}
			case reflect.Slice, reflect.Array, reflect.Map:
				fit = []string{"in", "notin", "empty", "notempty", "in"}
				// byte sequences of every declared type ([]byte, named slices, slices of a named byte
				// type, byte arrays) are what `matches` converts — or refuses to convert
				if sv.Kind() != reflect.Map && sv.Type().Elem().Kind() == reflect.Uint8 {
					fit = append(fit, "matches", "notmatches", "matches", "notmatches", "matches")
				}
			}
		}
		if len(fit) > 0 {
			op = fit[g.r.Intn(len(fit))]
		}
	}
	m := GMatch{Path: parts, Op: op, Contains: g.r.Intn(2) == 0}
	switch op {
	case "matches", "notmatches":
		m.Raw = regexps[g.r.Intn(len(regexps))]
		if g.r.Intn(3) == 0 {
			if sv := unwrapIP(val); sv.IsValid() && sv.Kind() == reflect.String {
				m.Raw = regexp_quote(sv.String())
			}
		}
	case "empty", "notempty":
	default:
		lits := g.literalsFor(val)
		if illTyped {
			lits = []string{"abc", "", "1.5", "true", "-1", "99999999999999999999", "x y", "0x", "1e", "é"}
		}
		// bias towards the first two (equal / nearby) spellings, then the first half
		switch r := g.r.Intn(100); {
		case r < 55 && len(lits) >= 2:
			m.Raw = lits[g.r.Intn(2)]
		case r < 80 && len(lits) >= 4:
			m.Raw = lits[g.r.Intn(len(lits)/2)]
		default:
			m.Raw = lits[g.r.Intn(len(lits))]
		}
	}
	return m
}

func regexp_quote(s string) string {
	var sb strings.Builder
	for _, c := range []byte(s) {
		if strings.IndexByte(`\.+*?()|[]{}^$`, c) >= 0 {
			sb.WriteByte('\\')
		}
		sb.WriteByte(c)
	}
	return sb.String()
}

func isCollection(v reflect.Value) bool {
	v = unwrapIfaceOnly(v)
	if !v.IsValid() {
		return false
	}
	switch v.Kind() {
	case reflect.Slice, reflect.Array, reflect.Map:
		return true
	}
	return false
}

func unwrapIfaceOnly(v reflect.Value) reflect.Value {
	for v.IsValid() && v.Kind() == reflect.Interface {
		v = v.Elem()
	}
	return v
}

// genExpr builds a random expression of bounded depth over the datum's paths.
func (g *Gen) genExpr(root reflect.Value, tag string, paths []PathInfo, depth int, illTyped bool) GExpr {
	r := g.r.Intn(100)
	if depth <= 0 {
		r = r % 55
	}
	switch {
	case r < 55:
		return g.genMatch(paths, illTyped)
	case r < 65:
		return GNot{g.genExpr(root, tag, paths, depth-1, illTyped)}
	case r < 77:
		return GAnd{g.genExpr(root, tag, paths, depth-1, illTyped), g.genExpr(root, tag, paths, depth-1, illTyped)}
	case r < 88:
		return GOr{g.genExpr(root, tag, paths, depth-1, illTyped), g.genExpr(root, tag, paths, depth-1, illTyped)}
	default:
		return g.genColl(root, tag, paths, depth-1, illTyped)
	}
}

func (g *Gen) genColl(root reflect.Value, tag string, paths []PathInfo, depth int, illTyped bool) GExpr {
	// choose a collection path (80%) or any path
	var colls []PathInfo
	for _, p := range paths {
		if isCollection(p.Val) {
			colls = append(colls, p)
		}
	}
	var pi PathInfo
	switch {
	case len(colls) > 0 && g.r.Intn(5) != 0:
		pi = colls[g.r.Intn(len(colls))]
	case len(paths) > 0:
		pi = paths[g.r.Intn(len(paths))]
	default:
		pi = PathInfo{Parts: []string{"zz"}}
	}
	parts := pi.Parts
	if g.r.Intn(10) == 0 {
		parts = g.mutatePath(parts)
	}
	c := GColl{Op: []string{"all", "any"}[g.r.Intn(2)], Path: parts}
	c.Mode = []string{"default", "index", "value", "indexvalue"}[g.r.Intn(4)]
	n1 := bindNames[g.r.Intn(len(bindNames))]
	n2 := bindNames[g.r.Intn(len(bindNames))]
	if g.r.Intn(12) != 0 {
		for n2 == n1 {
			n2 = bindNames[g.r.Intn(len(bindNames))]
		}
	}
	// sometimes reuse the collection's own first part as a binding name (capture hazard)
	if g.r.Intn(8) == 0 && len(parts) > 0 && identRe.MatchString(parts[0]) && !strings.Contains(parts[0], "/") {
		n1 = parts[0]
	}
	switch c.Mode {
	case "default":
		c.Def = n1
	case "index":
		c.Idx = n1
	case "value":
		c.Val = n2
	case "indexvalue":
		c.Idx, c.Val = n1, n2
	}
	// body paths: the outer paths plus, for the bound element, paths relative to the binding
	inner := append([]PathInfo{}, paths...)
	cv := unwrapIfaceOnly(pi.Val)
	var elems []reflect.Value
	var keys []reflect.Value
	if cv.IsValid() {
		switch cv.Kind() {
		case reflect.Slice, reflect.Array:
			for i := 0; i < cv.Len() && i < 3; i++ {
				elems = append(elems, cv.Index(i))
			}
		case reflect.Map:
			for _, k := range sortedMapKeys(cv) {
				keys = append(keys, k)
				elems = append(elems, cv.MapIndex(k))
			}
		}
	}
	valueName, keyName := "", ""
	isMap := cv.IsValid() && cv.Kind() == reflect.Map
	switch c.Mode {
	case "default":
		if isMap {
			keyName = c.Def
		} else {
			valueName = c.Def
		}
	case "index":
		keyName = c.Idx
	case "value":
		valueName = c.Val
	case "indexvalue":
		keyName, valueName = c.Idx, c.Val
	}
	var bound []PathInfo
	if valueName != "" {
		for _, e := range elems {
			bound = append(bound, PathInfo{Parts: []string{valueName}, Val: e})
			var sub []PathInfo
			enumPaths(e, tag, []string{valueName}, 2, &sub)
			bound = append(bound, sub...)
		}
	}
	if keyName != "" {
		if isMap {
			for _, k := range keys {
				bound = append(bound, PathInfo{Parts: []string{keyName}, Val: k})
			}
		} else {
			for i := range elems {
				bound = append(bound, PathInfo{Parts: []string{keyName}, Val: reflect.ValueOf(i)})
			}
			if len(elems) == 0 {
				bound = append(bound, PathInfo{Parts: []string{keyName}, Val: reflect.ValueOf(0)})
			}
		}
		// misuse: step below a key/index binding
		if g.r.Intn(10) == 0 {
			bound = append(bound, PathInfo{Parts: []string{keyName, "x"}})
		}
	}
	// the body mostly talks about the bound names
	for i := 0; i < 3; i++ {
		inner = append(inner, bound...)
	}
	c.Inner = g.genExpr(root, tag, inner, depth, illTyped)
	return c
}

// genEvalCase builds one (options, expression, datum).
func (g *Gen) genEvalCase() (opts []OptSpec, expr string, wire string, datum interface{}, ok bool) {
	datum = g.randDatum()
	tag := "bexpr"
	switch g.r.Intn(12) {
	case 0:
		tag = "json"
		opts = append(opts, OptSpec{Kind: "tag", Tag: "json"})
	case 1:
		tag = "alt"
		opts = append(opts, OptSpec{Kind: "tag", Tag: "alt"})
	case 2:
		tag = "pointer"
		opts = append(opts, OptSpec{Kind: "tag", Tag: ""})
	}
	if g.r.Intn(8) == 0 {
		unks := []interface{}{"", "unk", 0, 42, int64(7), uint8(3), 1.5, float32(2.5), true, false, MyStr("u"), nil, []int{1, 2}, map[string]int{"a": 1}}
		opts = append(opts, OptSpec{Kind: "unk", Unk: unks[g.r.Intn(len(unks))]})
	}
	if g.r.Intn(12) == 0 {
		hooks := []string{"identity", "unwrap", "const42", "nilret", "off"}
		opts = append(opts, OptSpec{Kind: "hook", Hook: hooks[g.r.Intn(len(hooks))]})
	}
	var paths []PathInfo
	var root reflect.Value
	if datum != nil {
		root = reflect.ValueOf(datum)
		enumPaths(root, tag, nil, 4, &paths)
	}
	e := g.genExpr(root, tag, paths, 3, g.r.Intn(10) == 0)
	expr, wire, ok = g.renderTop(e)
	return
}

func describe(e GExpr) string { return fmt.Sprintf("%#v", e) }
