package main

// harness: generates cases for one correspondence fragment from a single PRNG seed, runs the REAL
// go-bexpr (built from /repo's working tree, -tags verif) on each, and writes
//   <out>/cases.txt  request lines for the Lean driver
//   <out>/impl.txt   the real code's canonical answers (same line numbers)
//   <out>/meta.json  input distribution, direct-oracle findings
// The orchestrator pipes cases.txt through bxdriver and diffs against impl.txt.

import (
	"bufio"
	"encoding/json"
	"flag"
	"fmt"
	"os"
	"path/filepath"
	"runtime/debug"
	"sort"
)

type Finding struct {
	Property string `json:"property"`
	Kind     string `json:"kind"`
	What     string `json:"what"`
	Request  string `json:"request,omitempty"`
	Detail   string `json:"detail,omitempty"`
	// Class names a precisely delimited family of inputs (used to match known findings)
	Class string `json:"class,omitempty"`
}

type Meta struct {
	Fragment string         `json:"fragment"`
	Seed     int64          `json:"seed"`
	Cases    int            `json:"cases"`
	Distinct int            `json:"distinct"`
	Dist     map[string]int `json:"distribution"`
	Samples  []string       `json:"samples"`
	Findings []Finding      `json:"findings"`
	Notes    []string       `json:"notes,omitempty"`
}

type Out struct {
	cases, impl *bufio.Writer
	meta        Meta
	seen        map[string]bool
	last        string
}

func (o *Out) emit(req, ans string) {
	fmt.Fprintln(o.cases, req)
	fmt.Fprintln(o.impl, ans)
	o.last = req
	o.meta.Cases++
	if !o.seen[req] {
		o.seen[req] = true
		o.meta.Distinct++
	}
	if len(o.meta.Samples) < 5 && o.meta.Cases%97 == 1 {
		s := req
		if len(s) > 400 {
			s = s[:400] + "…"
		}
		o.meta.Samples = append(o.meta.Samples, s+" => "+ans)
	}
}

func (o *Out) count(key string) { o.meta.Dist[key]++ }

func (o *Out) finding(f Finding) {
	if len(o.meta.Findings) < 200 {
		o.meta.Findings = append(o.meta.Findings, f)
	}
}

var fragments = map[string]func(g *Gen, n int, o *Out){}

func main() {
	frag := flag.String("frag", "", "fragment name")
	seed := flag.Int64("seed", 1, "PRNG seed")
	n := flag.Int("n", 1000, "number of cases (generator dependent)")
	outDir := flag.String("out", "", "output directory")
	flag.Parse()
	f, ok := fragments[*frag]
	if !ok {
		var names []string
		for k := range fragments {
			names = append(names, k)
		}
		sort.Strings(names)
		fmt.Fprintf(os.Stderr, "unknown fragment %q; have %v\n", *frag, names)
		os.Exit(2)
	}
	if err := os.MkdirAll(*outDir, 0o755); err != nil {
		panic(err)
	}
	cf, err := os.Create(filepath.Join(*outDir, "cases.txt"))
	if err != nil {
		panic(err)
	}
	imf, err := os.Create(filepath.Join(*outDir, "impl.txt"))
	if err != nil {
		panic(err)
	}
	o := &Out{cases: bufio.NewWriterSize(cf, 1<<20), impl: bufio.NewWriterSize(imf, 1<<20), seen: map[string]bool{}}
	o.meta = Meta{Fragment: *frag, Seed: *seed, Dist: map[string]int{}, Findings: []Finding{}, Samples: []string{}}
	// a result that holds an invalid pointer faults when it is serialised: make that a panic of the case, not a crash
	debug.SetPanicOnFault(true)
	startWatchdog(o, *outDir)
	f(newGen(*seed), *n, o)
	o.cases.Flush()
	o.impl.Flush()
	cf.Close()
	imf.Close()
	mb, _ := json.MarshalIndent(o.meta, "", " ")
	if err := os.WriteFile(filepath.Join(*outDir, "meta.json"), mb, 0o644); err != nil {
		panic(err)
	}
}
