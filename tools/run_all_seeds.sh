#!/bin/bash
# usage: VERIF_ROOT=<copy of /verif> VERIF_REPO=<scratch worktree> OUT=<dir> tools/run_all_seeds.sh <seed name>...
# Applies seeded/<name>/patch.diff to the scratch worktree, runs the check(s) of the property the change was
# written against (reverted fixes: the properties recorded in their meta.json), undoes it.  One result file per seed.
V=${VERIF_ROOT:-/verif}
cd $V || exit 2
mkdir -p "$OUT"
for name in "$@"; do
  d=$V/seeded/$name
  [ -f $d/patch.diff ] || continue
  case $name in
    revert-*) props=$(python3 -c "import json,sys; print(','.join(c['check'] for c in json.load(open('$d/meta.json')).get('checks',[])))") ;;
    *) props=${name%%-*} ;;
  esac
  [ -n "$props" ] || props=C09
  echo "##### $name ($props)" | tee $OUT/$name.txt
  tools/try_mutation.py $d/patch.diff $props 2>&1 | tee -a $OUT/$name.txt | grep -E "^C[0-9]+ rc|^     |REFUSING|apply"
done
