#!/bin/bash
# Confirms every delivered change in a scratch worktree: applies, builds, vet clean, existing suite passes with it,
# demo fails with it and passes without it. Writes /verif/seeded/<id>-<n>/{patch.diff,demo_test.go,meta.json,notes.md}
export GOFLAGS=-mod=mod GOPROXY=off GOSUMDB=off GOTOOLCHAIN=local
W=/tmp/mut/verify
git -C /repo worktree remove --force $W 2>/dev/null
git -C /repo worktree add -q --detach $W HEAD || exit 1
cd $W
for d in ${MUTDIR:-/tmp/mut/out}/C*/[0-9]*; do
  id=$(basename $(dirname $d)); n=$(basename $d); name=$id-${ROUND:-}$n
  [ -f $d/patch.diff ] || continue
  git checkout -q -- . ; git clean -fdq
  res="applies=no"
  if git apply --whitespace=nowarn $d/patch.diff 2>/dev/null; then
    res="applies=yes"
    go build ./... >/dev/null 2>&1 && res="$res build=ok" || res="$res build=FAIL"
    go vet ./... >/dev/null 2>&1 && res="$res vet=ok" || res="$res vet=FAIL"
    go test -count=1 ./... >/tmp/mut/verify.log 2>&1 && res="$res suite=pass" || res="$res suite=FAIL"
    pkgdir=.
    grep -q "^package grammar" $d/demo_test.go && pkgdir=grammar
    cp $d/demo_test.go $pkgdir/zz_demo_test.go
    tn=$(grep -o "func Test[A-Za-z0-9_]*" $d/demo_test.go | head -1 | sed 's/func //')
    race=""; [ "$id" = "C12" ] && race="-race"
    if go test $race -count=1 -run "^$tn\$" ./$pkgdir >/tmp/mut/verify_demo.log 2>&1; then res="$res demo_with_patch=PASSES(bad)"; else res="$res demo_with_patch=fails"; fi
    git checkout -q -- . ; rm -f $pkgdir/zz_demo_test.go; cp $d/demo_test.go $pkgdir/zz_demo_test.go
    if go test $race -count=1 -run "^$tn\$" ./$pkgdir >/tmp/mut/verify_demo2.log 2>&1; then res="$res demo_without=passes"; else res="$res demo_without=FAILS(bad)"; fi
    rm -f $pkgdir/zz_demo_test.go
  fi
  echo "$name $res"
  mkdir -p /verif/seeded/$name
  cp $d/patch.diff $d/demo_test.go /verif/seeded/$name/ 2>/dev/null
  cp $d/notes.md /verif/seeded/$name/ 2>/dev/null
  echo "$res" > /verif/seeded/$name/confirm.txt
done
cd /; git -C /repo worktree remove --force $W
