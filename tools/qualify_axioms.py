#!/usr/bin/env python3
"""Move `#print axioms foo` lines of a Props file to its end, outside the namespace, fully qualified."""
import re, sys
path, ns = sys.argv[1], sys.argv[2]
s = open(path).read()
names = re.findall(r'^#print axioms (\S+)\s*$', s, re.M)
s = re.sub(r'^#print axioms \S+\s*\n', '', s, flags=re.M)
q = []
for n in names:
    q.append(n if (n.startswith(ns + '.') or n.startswith('Bexpr.')) else ns + '.' + n)
s = s.rstrip() + '\n\n' + ''.join('#print axioms %s\n' % n for n in dict.fromkeys(q))
open(path, 'w').write(s)
print(path, len(q), 'theorems')
