#!/usr/bin/env python3
"""Write seeded/<id>/meta.json and seeded/RESULTS.md from <results dir>/<seed name>.txt (outputs of
tools/run_all_seeds.sh).  usage: tools/seed_results.py <results dir>"""
import os, re, json, glob, sys
ROOT = "/verif"
import sys
if len(sys.argv) != 2 or not os.path.isdir(sys.argv[1]):
    print(__doc__); sys.exit(2)
RES = sys.argv[1]
rows = []
for d in sorted(glob.glob(ROOT + "/seeded/*/")):
    name = os.path.basename(d.rstrip("/"))
    if not os.path.exists(os.path.join(d, "patch.diff")):
        continue
    meta = {"seed": name}
    if name.startswith("revert-"):
        meta["kind"] = "reverted fix"
        res_file = RES + "/%s.txt" % name
        old = d + "meta.json"
        if os.path.exists(old):
            try:
                meta["reverts"] = json.load(open(old)).get("reverts", "")
            except ValueError:
                pass
    else:
        parts = name.split("-")
        pid, n = parts[0], parts[-1]
        meta["round"] = next((int(x[1:]) for x in parts if len(x) == 2 and x[0] == "r" and x[1].isdigit()), 1)
        meta["breaks_property"] = pid
        meta["kind"] = "written by an independent sub-agent that saw only the property text and a scratch worktree"
        res_file = RES + "/%s.txt" % name
        notes = d + "notes.md"
        if os.path.exists(notes):
            meta["needs_to_manifest"] = open(notes).read().strip()[:1500]
        conf = d + "confirm.txt"
        if os.path.exists(conf):
            meta["confirmed_in_scratch_worktree"] = open(conf).read().strip()
    detected = []
    if os.path.exists(res_file):
        txt = open(res_file).read()
        for m in re.finditer(r"^(C\d+) rc=(\d)(.*)$", txt, re.M):
            p, rc, rest = m.group(1), int(m.group(2)), m.group(3)
            how = "not reported"
            if rc == 1:
                how = "broken obligation / correspondence (no-failing-input-found)" if "no-failing-input-found" in rest else "failing input on the real code"
            det = re.findall(r"^     (.*)$", txt[m.end():m.end() + 600], re.M)
            detected.append({"check": p, "reported": rc == 1, "how": how, "detail": det[:2]})
    meta["ran"] = "tools/try_mutation.py seeded/%s/patch.diff <property> (applies the patch to /repo, runs ./check <property> --tier quick, undoes it)" % name
    meta["checks"] = detected
    json.dump(meta, open(d + "meta.json", "w"), indent=1)
    rows.append((name, detected))
with open(ROOT + "/seeded/RESULTS.md", "w") as f:
    f.write("# Seeded changes and the checks that report them\n\n")
    f.write("Each change was confirmed in a scratch worktree (compiles, `go vet` clean, the 326 existing tests pass with it, its demonstration fails with it and passes without it), then applied to a scratch worktree of /repo, checked with the check of the property it was written against, and undone.\n\n")
    f.write("| seed | check | reported | how | first detail |\n|---|---|---|---|---|\n")
    for name, det in rows:
        for c in det:
            f.write("| %s | %s | %s | %s | %s |\n" % (name, c["check"], "yes" if c["reported"] else "NO", c["how"], (c["detail"][0][:110] if c["detail"] else "").replace("|", "/")))
    tot = sum(1 for _, det in rows if det)
    hit = sum(1 for _, det in rows if det and any(c["reported"] for c in det))
    f.write("\n%d of %d seeded changes are reported by the check of the property they were written against.\n" % (hit, tot))
print("written")
