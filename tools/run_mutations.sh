#!/bin/bash
# usage: tools/run_mutations.sh Cxx [Cyy…]   — runs each delivered change of those agents against its own property's check
cd ${VERIF_ROOT:-/verif}
for id in "$@"; do
  for d in ${MUTDIR:-/tmp/mut/out}/$id/[0-9]*; do
    [ -f $d/patch.diff ] || continue
    n=$(basename $d)
    if [ -f build/${MUTRES:-mutres}/$id-$n.txt ] && [ -z "$FORCE" ]; then continue; fi
    mkdir -p build/${MUTRES:-mutres}
    echo "##### $id/$n" | tee build/${MUTRES:-mutres}/$id-$n.txt
    tools/try_mutation.py $d/patch.diff ${PROPS:-$id} 2>&1 | tee -a build/${MUTRES:-mutres}/$id-$n.txt | grep -E "^C[0-9]+ rc|^     |REFUSING|apply"
  done
done
