#!/usr/bin/env python3
"""Apply a seeded change to /repo, run the given checks, undo the change.
usage: tools/try_mutation.py <patch.diff> <Cxx[,Cyy…]|all> [--tier quick|thorough]
Prints one line per check: property, exit status, the VIOLATION line (if any)."""
import subprocess, sys, os, json
patch = os.path.abspath(sys.argv[1])
props = sys.argv[2]
tier = "quick"
if "--tier" in sys.argv:
    tier = sys.argv[sys.argv.index("--tier") + 1]
REPO = os.environ.get("VERIF_REPO", "/repo")
VROOT = os.environ.get("VERIF_ROOT", "/verif")
allp = ["C%02d" % i for i in range(1, 21)]
props = allp if props == "all" else props.split(",")
def sh(cmd, **kw):
    return subprocess.run(cmd, shell=True, stdout=subprocess.PIPE, stderr=subprocess.STDOUT, text=True, **kw)
st = sh("git -C %s status --porcelain" % REPO).stdout.strip()
if st:
    print("REFUSING: repo is not clean:\n" + st); sys.exit(2)
r = sh("git -C %s apply --whitespace=nowarn %s" % (REPO, patch))
if r.returncode != 0:
    # written against an earlier commit of the library: three-way apply (scratch worktrees only)
    r = sh("git -C %s apply -3 --whitespace=nowarn %s" % (REPO, patch)) if REPO != "/repo" else r
    if r.returncode != 0:
        sh("git -C %s reset -q --hard" % REPO) if REPO != "/repo" else None
        print("patch does not apply:", r.stdout); sys.exit(2)
res = {}
try:
    for p in props:
        r = sh("cd %s && ./check %s --tier %s" % (VROOT, p, tier))
        lines = [l for l in r.stdout.split("\n") if l.startswith(("VIOLATION", "OK", "KNOWN-FINDING", "  "))]
        vio = [l for l in lines if l.startswith("VIOLATION")]
        res[p] = dict(rc=r.returncode, violation=vio[0] if vio else "", detail=[l for l in lines if l.startswith("  ")][:3])
        print("%s rc=%d %s" % (p, r.returncode, (vio[0] if vio else "")), flush=True)
        for d in res[p]["detail"]:
            print("     " + d.strip()[:200])
finally:
    if REPO != "/repo":
        sh("git -C %s reset -q --hard && git -C %s clean -fdq" % (REPO, REPO))
    else:
        sh("git -C %s checkout -- . && git -C %s clean -fdq" % (REPO, REPO))
    st = sh("git -C %s status --porcelain" % REPO).stdout.strip()
    if st:
        print("WARNING: /repo not clean after undo:\n" + st)
print("RESULT " + json.dumps({p: (v["rc"], "no-failing-input-found" in v["violation"]) for p, v in res.items()}))
