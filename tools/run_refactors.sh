#!/bin/bash
# usage: VERIF_ROOT=<copy of /verif> VERIF_REPO=<scratch worktree> OUT=<dir> tools/run_refactors.sh <dir with patch.diff>...
# Applies each behaviour-preserving refactor and runs ALL twenty quick checks on it: every VIOLATION is a false alarm.
V=${VERIF_ROOT:-/verif}
cd $V || exit 2
mkdir -p "$OUT"
for d in "$@"; do
  name=$(basename $(dirname $d))-$(basename $d)
  echo "##### $name" | tee $OUT/$name.txt
  tools/try_mutation.py $d/patch.diff all 2>&1 | tee -a $OUT/$name.txt | grep -E "rc=1|REFUSING|apply|RESULT"
done
